"""Checker self-test (thorough tier): scratch-copy mutants that must fire, controls that must stay silent.

The mutants are test fixtures for the rules, not rules: each is an anchored text edit applied to a scratch copy of /repo
(outside /repo and /verif, removed afterwards).  A mutant whose anchor no longer exists in the tree is *stale* and is
skipped (listed in the evidence); a mutant that applies but is not reported with the expected rule, or a control that is
reported, is an analyser failure (ANALYSIS-ERROR, exit 2).
"""
from __future__ import annotations

import concurrent.futures as cf
import os
import random
import re

from . import scratch
from .cfront import AnalysisError

# (id, property, file, old, new, expected substring in a `rule=` report line | None for silent controls)
M = []


def mut(mid, pid, file, old, new, expect):
    M.append({"id": mid, "pid": pid, "file": file, "old": old, "new": new, "expect": expect})


ED = "src/engine/engine_collision_driver.c"
CC = "src/engine/engine_core_constraint.c"
FW = "src/engine/engine_forward.c"
IO = "src/engine/engine_io.c"
SU = "src/engine/engine_support.c"
IN = "src/engine/engine_inverse.c"

SEN = "src/engine/engine_sensor.c"
mut("c01-sensor-hold-not-recopied", "C01", SEN, "    } else {\n      // interval condition not satisfied: read from buffer\n      int interp = m->sensor_history[2*i+1];\n      const mjtNum* ptr = mj_readSensor(m, d, i, d->time, sensordata, interp);\n      if (ptr) mju_copy(sensordata, ptr, dim);\n    }\n    return;",
    "    }\n    return;", "rule=R-SENSOR-WRITTEN construct=compute_or_read_sensor:sensordata")
# ---- C19 / R-FRAME
mut("c19-drop-free", "C19", FW, "  mj_advance(m, d, d->act_dot, qacc, NULL);\n\n  mj_freeStack(d);\n\n  TM_END(mjTIMER_ADVANCE);\n}\n\n\n// Euler integrator, semi-implicit in velocity\n",
    "  mj_advance(m, d, d->act_dot, qacc, NULL);\n\n  TM_END(mjTIMER_ADVANCE);\n}\n\n\n// Euler integrator, semi-implicit in velocity\n", "rule=R-FRAME construct=mj_EulerSkip")
mut("c19-early-return", "C19", IN, "  // allocate\n  mj_markStack(d);\n  qforce = mjSTACKALLOC(d, nv, mjtNum);",
    "  // allocate\n  mj_markStack(d);\n  if (nv > 100000) return;\n  qforce = mjSTACKALLOC(d, nv, mjtNum);", "rule=R-FRAME construct=mj_compareFwdInv")
mut("c19-alloc-before-mark", "C19", IN, "  mj_markStack(d);\n  qforce = mjSTACKALLOC(d, nv, mjtNum);\n  dif = mjSTACKALLOC(d, nv, mjtNum);",
    "  qforce = mjSTACKALLOC(d, nv, mjtNum);\n  mj_markStack(d);\n  dif = mjSTACKALLOC(d, nv, mjtNum);", "rule=R-FRAME construct=mj_compareFwdInv")
mut("c19-correlated-ok", "C19", IN, "  // allocate\n  mj_markStack(d);\n  qforce = mjSTACKALLOC(d, nv, mjtNum);",
    "  // allocate\n  int big = nv > 3;\n  if (big) mj_markStack(d);\n  if (!big) mj_markStack(d);\n  qforce = mjSTACKALLOC(d, nv, mjtNum);", None)
mut("c19-threadlock-plain", "C19", "src/engine/engine_memory.c", "    size_t old_pstack = mj_atomic_add_size_t(&d->pstack, alloc_size);",
    "    size_t old_pstack = d->pstack; d->pstack += alloc_size;", "rule=R-THREADLOCK construct=stackalloc:atomic-reservation")
# ---- C20 / R-NULLABLE
mut("c20-wrong-var", "C20", ED, "  if (!new_pair) {\n    mjERROR(\"arena too small to allocate geom pair\");", "  if (!pair) {\n    mjERROR(\"arena too small to allocate geom pair\");",
    "rule=R-NULLABLE construct=pushPairArena:new_pair")
mut("c20-drop-test", "C20", CC, "  if (!dst) {\n    mj_warning(d, mjWARN_CONTACTFULL, d->ncon);\n    return 1;\n  }\n", "", "rule=R-NULLABLE construct=mj_addContact:dst")
mut("c20-no-warning", "C20", CC, "  if (!dst) {\n    mj_warning(d, mjWARN_CONTACTFULL, d->ncon);\n    return 1;\n  }\n", "  if (!dst) {\n    return 1;\n  }\n",
    "rule=R-NULLABLE construct=mj_addContact:dst")
mut("c20-if-form-ok", "C20", CC, "  if (!dst) {\n    mj_warning(d, mjWARN_CONTACTFULL, d->ncon);\n    return 1;\n  }\n  *dst = *con;\n\n  // increase counter, return success\n  d->ncon++;\n  return 0;",
    "  if (dst) {\n    *dst = *con;\n    d->ncon++;\n    return 0;\n  }\n  mj_warning(d, mjWARN_CONTACTFULL, d->ncon);\n  return 1;", None)
mut("c20-no-clear", "C20", CC, "    mj_warning(d, mjWARN_CNSTRFULL, d->narena);                               \\\n    mj_clearEfc(d);                                                           \\\n",
    "    mj_warning(d, mjWARN_CNSTRFULL, d->narena);                               \\\n", "rule=R-NULLABLE construct=arenaAllocEfc")
MEMC = "src/engine/engine_memory.c"
ISL = "src/engine/engine_island.c"
mut("c20-size-test-wraps", "C20", MEMC, "  size_t bytes_available = d->narena - d->pstack;\n  if (mjUNLIKELY(d->parena + padding + bytes > bytes_available)) {",
    "  size_t bytes_available = d->narena - d->pstack - d->parena;\n  if (mjUNLIKELY(bytes > bytes_available - padding)) {", "rule=R-ARENA-GUARD construct=mj_arenaAllocByte:size-test-no-wrap")
mut("c20-size-test-ok-equivalent", "C20", MEMC, "  size_t bytes_available = d->narena - d->pstack;\n  if (mjUNLIKELY(d->parena + padding + bytes > bytes_available)) {",
    "  size_t bytes_used = d->parena + padding + bytes;\n  if (mjUNLIKELY(!(bytes_used <= d->narena - d->pstack))) {", None)
mut("c20-island-rewind-to-contacts", "C20", ISL, "  d->nidof = 0;\n  d->parena = parena;\n", "  d->nidof = 0;\n  d->parena = d->ncon * sizeof(mjContact);\n", "rule=R-ARENA-STALE construct=")
# ---- C26
mut("c26-size", "C26", SU, "case mjSTATE_WARMSTART:     return m->nv;", "case mjSTATE_WARMSTART:     return m->nu;", "rule=R-TABLE-STATE construct=mjSTATE_WARMSTART")
mut("c26-cursor", "C26", SU, "        mju_copy(state + adr, ptr, size);\n        adr += size;", "        mju_copy(state + adr, ptr, size);\n        adr += 1;",
    "rule=R-STATE-LOOP construct=mj_getState")
mut("c26-reset-flag", "C26", IO, "  d->flg_rnepost = 0;\n\n  //------", "\n  //------", "rule=R-COVER-RESET construct=flg_rnepost")
mut("c26-rename-ok", "C26", SU, None, None, None)   # handled specially: rename `adr` -> `cursor`
# ---- C31
mut("c31-rewrite-after-read", "C31", IO, "  bufread((void*)&m->vis, sizeof(mjVisual), buffer_sz, buffer, &ptrbuf);\n",
    "  bufread((void*)&m->vis, sizeof(mjVisual), buffer_sz, buffer, &ptrbuf);\n  if (!(m->opt.tolerance > 0)) m->opt.tolerance = 1e-8;\n", "rule=IO-NOREWRITE construct=load:opt")
mut("c31-ok-read-into-local-alias", "C31", IO, "  bufread((void*)&m->opt, sizeof(mjOption), buffer_sz, buffer, &ptrbuf);\n",
    "  mjOption* optblock = &m->opt;\n  bufread((void*)optblock, sizeof(mjOption), buffer_sz, buffer, &ptrbuf);\n", None)
mut("c31-drop-write", "C31", IO, "  bufwrite(&m->flg_adhesion, sizeof(mjtBool), buffer_sz, buffer, &ptrbuf);\n", "", "rule=IO-")
mut("c31-guard-shrink", "C31", IO, "sizeof(mjtBool) * 3 > buffer_sz", "sizeof(mjtBool) * 2 > buffer_sz", "rule=IO-GUARD")
mut("c31-fatal", "C31", IO, "      return \"Invalid model: unknown equality constraint type.\";", "      mjERROR(\"unknown equality constraint type.\");", "rule=NOFATAL")
mut("c31-row-extent", "C31", IO, "  X(tendon_treeid,      ntendon*2,      ntree         , 0                      ) \\", "  X(tendon_treeid,      ntendon,        ntree         , 0                      ) \\",
    "rule=REF-ROW construct=tendon_treeid")
mut("c31-drop-row", "C31", IO, "  X(dof_bodyid,         nv,             nbody         , 0                      ) \\\n", "", "rule=REF-COVER construct=dof_bodyid")
# ---- C04
mut("c04-swap-stage", "C04", FW, "  mj_fwdActuation(m, d);\n  mj_fwdAcceleration(m, d);\n  mj_fwdConstraint(m, d);\n  d->flg_rnepost = 0;  // clear flag for lazy evaluation\n  mj_sensorAcc(m, d);\n  mj_checkAcc(m, d);",
    "  mj_fwdAcceleration(m, d);\n  mj_fwdActuation(m, d);\n  mj_fwdConstraint(m, d);\n  d->flg_rnepost = 0;  // clear flag for lazy evaluation\n  mj_sensorAcc(m, d);\n  mj_checkAcc(m, d);", "rule=R-SIBLING-SEQ")
mut("c04-drop-guard", "C04", FW, "  if (mjcb_control && !mjDISABLED(mjDSBL_ACTUATION)) {\n    mjcb_control(m, d);\n  }\n  TM_END(mjTIMER_STEP);", "  if (mjcb_control) {\n    mjcb_control(m, d);\n  }\n  TM_END(mjTIMER_STEP);",
    "rule=R-SIBLING-SEQ construct=mjcb_control:guard")
mut("c04-write-state", "C04", FW, "  // tendon velocity: always sparse\n", "  d->qvel[0] = 0;\n  // tendon velocity: always sparse\n", "rule=R-MODSET construct=mj_fwdVelocity:qvel")
mut("c04-drop-clear", "C04", FW, "  // clear velocity-dependent flags for lazy evaluation\n  d->flg_subtreevel = 0;\n", "  // clear velocity-dependent flags for lazy evaluation\n", "rule=R-LAZY")
mut("c04-helper-ok", "C04", FW, "void mj_step2(const mjModel* m, mjData* d) {\n  TM_START;\n  mj_fwdActuation(m, d);\n  mj_fwdAcceleration(m, d);\n  mj_fwdConstraint(m, d);",
    "static void accStage(const mjModel* m, mjData* d) {\n  mj_fwdActuation(m, d);\n  mj_fwdAcceleration(m, d);\n  mj_fwdConstraint(m, d);\n}\nvoid mj_step2(const mjModel* m, mjData* d) {\n  TM_START;\n  accStage(m, d);", None)
# ---- C05
mut("c05-double-time", "C05", FW, "  // advance time\n  d->time += m->opt.timestep;\n", "  // advance time\n  d->time += m->opt.timestep;\n  if (m->nplugin) d->time += m->opt.timestep;\n", "rule=R-ONCE construct=mj_advance:time")
mut("c05-tableau", "C05", FW, "  1.0/6.0, 1.0/3.0, 1.0/3.0, 1.0/6.0", "  1.0/6.0, 1.0/3.0, 1.0/6.0, 1.0/3.0", "rule=R-CONST")
mut("c05-tableau-ok", "C05", FW, "  1.0/6.0, 1.0/3.0, 1.0/3.0, 1.0/6.0", "  0.5/3.0, 2.0/6.0, 1.0/3.0, 1.0/6.0", None)
mut("c05-raw-act2", "C05", FW, "        d->act[j] = mj_nextActivation(m, d, i, j, mj_actuatorDisabled(m, i) ? 0 : act_dot[j]);", "        d->act[j] = act_dot[j] * m->opt.timestep;", "rule=R-WHO-WRITES construct=mj_advance:store:raw")
mut("c05-no-restore", "C05", FW, "  // reset state and time\n  d->time = time;\n", "  // reset state and time\n", "rule=R-ONCE construct=mj_RungeKutta:time-restored")
mut("c05-drop-case", "C05", SU, "      case mjJNT_HINGE:\n      case mjJNT_SLIDE:\n        // scalar update: same for rotation and translation", "      case mjJNT_HINGE:\n        // scalar update: same for rotation and translation",
    "rule=R-EXHAUST construct=mj_integratePosInd")
CS = "src/engine/engine_core_smooth.c"
mut("c04-position-stage-reads-ctrl", "C04", CS, "    case mjTRN_SLIDERCRANK:             // slider-crank\n      {\n",
    "    case mjTRN_SLIDERCRANK:             // slider-crank\n      {\n        if (d->ctrl[m->actuator_ctrladr[i]] == 0) { break; }\n", "rule=R-STAGE-INPUT construct=mj_fwdPosition:ctrl")
# ---- C09
mut("c09-drop-flag", "C09", IN, "    if (!mjDISABLED(mjDSBL_EULERDAMP) && !mjDISABLED(mjDSBL_DAMPER)) {", "    if (!mjDISABLED(mjDSBL_EULERDAMP)) {", "rule=R-SIBLING-GUARD construct=EULER:flags")
mut("c09-bias-flag", "C09", IN, "    mjd_smooth_vel(m, d, /* flg_bias = */ 1);\n\n    // gather qLU", "    mjd_smooth_vel(m, d, /* flg_bias = */ 0);\n\n    // gather qLU", "rule=R-SIBLING-GUARD construct=IMPLICIT:calls")
mut("c09-sign", "C09", IN, "    mju_addToScl(d->qLU, d->qDeriv, -m->opt.timestep, m->nD);", "    mju_addToScl(d->qLU, d->qDeriv, m->opt.timestep, m->nD);", "rule=R-SIBLING-GUARD construct=IMPLICIT:signs")
mut("c09-no-restore", "C09", IN, "  mju_copy(d->efc_force, save_efc_force, nefc);\n", "", "rule=R-SAVE-RESTORE")

PC_OLD = "    // re-gather island D/R\n    if (d->nisland) {\n      mju_gather(d->iefc_D, d->efc_D, d->map_iefc2efc, d->nefc);\n      mju_gather(d->iefc_R, d->efc_R, d->map_iefc2efc, d->nefc);\n    }\n"
mut("c09-regather-dual-only", "C09", CC, PC_OLD, PC_OLD.replace("if (d->nisland) {", "if (d->nisland && isDual) {"), "rule=R-ISLAND-COPY construct=mj_projectConstraint:iefc_D~efc_D")
mut("c09-regather-one-conditional", "C09", CC, PC_OLD, PC_OLD.replace("      mju_gather(d->iefc_R, d->efc_R, d->map_iefc2efc, d->nefc);\n", "      if (isDual) mju_gather(d->iefc_R, d->efc_R, d->map_iefc2efc, d->nefc);\n"), "rule=R-ISLAND-COPY construct=mj_projectConstraint:iefc_R~efc_R")
mut("c09-regather-before-write", "C09", CC, "    mj_makeImpedance(m, d);\n\n" + PC_OLD, PC_OLD + "    mj_makeImpedance(m, d);\n", "rule=R-ISLAND-COPY construct=mj_projectConstraint")
mut("c09-ok-regather-early-out", "C09", CC, PC_OLD, "    // re-gather island D/R\n    if (d->nisland == 0) {\n      if (isDual) mj_makeAR(m, d);\n      return;\n    }\n"
    "    mju_gather(d->iefc_D, d->efc_D, d->map_iefc2efc, d->nefc);\n    mju_gather(d->iefc_R, d->efc_R, d->map_iefc2efc, d->nefc);\n", None)
mut("c09-ok-regather-scatter-form", "C09", CC, PC_OLD, PC_OLD.replace("mju_gather(d->iefc_D, d->efc_D, d->map_iefc2efc, d->nefc);", "mju_scatter(d->iefc_D, d->efc_D, d->map_efc2iefc, d->nefc);"), None)

# ---- C30
mut("c30-move-check", "C30", FW, "  mj_checkPos(m, d);\n  mj_checkVel(m, d);\n  mj_forward(m, d);\n  mj_checkAcc(m, d);", "  mj_checkPos(m, d);\n  mj_forward(m, d);\n  mj_checkVel(m, d);\n  mj_checkAcc(m, d);", "rule=R-MUSTPASS")
mut("c30-no-autoreset-guard", "C30", FW, "      mj_warning(d, mjWARN_BADQVEL, i);\n      if (!mjDISABLED(mjDSBL_AUTORESET)) {\n        mj_resetData(m, d);\n      }", "      mj_warning(d, mjWARN_BADQVEL, i);\n      mj_resetData(m, d);", "rule=R-CHECK construct=mj_checkVel")
mut("c30-wrong-warning", "C30", FW, "      mj_warning(d, mjWARN_BADQPOS, i);", "      mj_warning(d, mjWARN_BADQVEL, i);", "rule=R-CHECK construct=mj_checkPos")
mut("c30-no-recount", "C30", FW, "      d->warning[mjWARN_BADQACC].number++;\n", "", "rule=R-CHECK construct=mj_checkAcc")
mut("c30-isbad-oneside", "C30", "src/engine/engine_util_misc.c", "  return (x != x || x > mjMAXVAL || x < -mjMAXVAL);", "  return (x != x || x > mjMAXVAL);", "rule=R-FINITE")
mut("c30-isbad-equiv-ok", "C30", "src/engine/engine_util_misc.c", "  return (x != x || x > mjMAXVAL || x < -mjMAXVAL);", "  return !(x <= mjMAXVAL && x >= -mjMAXVAL);", None)
mut("c30-scan-from-1", "C30", FW, "  for (int i=0; i < nq; i++) {\n    if (mju_isBad(qpos[i])) {", "  for (int i=1; i < nq; i++) {\n    if (mju_isBad(qpos[i])) {", "rule=R-CHECK construct=mj_checkPos")
SLP = "src/engine/engine_sleep.c"
mut("c30-wake-magnitude-test", "C30", SLP, "  if (tol) {\n    return isSmaller(d->qvel+adr, m->dof_length+adr, num, tol);\n  } else {\n    return mju_isZeroByte((const unsigned char*)(d->qvel+adr), num*sizeof(mjtNum));\n  }",
    "  return isSmaller(d->qvel+adr, m->dof_length+adr, num, tol ? tol : mjMINVAL);", "rule=R-WAKE-NAN construct=treeCanSleep:nan-velocity-wakes")
mut("c30-ok-wake-explicit-loop", "C30", SLP, "    return mju_isZeroByte((const unsigned char*)(d->qvel+adr), num*sizeof(mjtNum));",
    "    for (int k=0; k < num; k++) {\n      if (!(d->qvel[adr+k] == 0)) return 0;\n    }\n    return 1;", None)
# ---- C34
NM = "src/engine/engine_name.c"
UMC = "src/user/user_model.cc"
mut("c34-repeat-check-skipped-by-size", "C34", UMC, "  if (checkrepeat) { CheckRepeat(type); }", "  if (checkrepeat && list.size() != ids[type].size()) { CheckRepeat(type); }", "rule=R-REPEAT construct=ProcessList_:CheckRepeat")
mut("c34-ok-repeat-check-negated-flag", "C34", UMC, "  if (checkrepeat) { CheckRepeat(type); }", "  if (!checkrepeat) { return; }\n  CheckRepeat(type);", None)
mut("c34-wrong-count", "C34", NM, "      *padr = m->name_siteadr;\n      num = m->nsite;", "      *padr = m->name_siteadr;\n      num = m->ncam;", "rule=R-TABLE-NAME")
mut("c34-swap-order", "C34", "src/user/user_model.cc", "  adr      = namelist(sites_, adr, m->name_siteadr, m->names, map_adr);\n  map_adr += mjLOAD_MULTIPLE * sites_.size();\n\n  adr      = namelist(cameras_, adr, m->name_camadr, m->names, map_adr);\n  map_adr += mjLOAD_MULTIPLE * cameras_.size();",
    "  adr      = namelist(cameras_, adr, m->name_camadr, m->names, map_adr);\n  map_adr += mjLOAD_MULTIPLE * cameras_.size();\n\n  adr      = namelist(sites_, adr, m->name_siteadr, m->names, map_adr);\n  map_adr += mjLOAD_MULTIPLE * sites_.size();", "rule=R-WRITER-ORDER construct=order")
mut("c34-id-bound", "C34", NM, "  if (id >= 0 && id < num && m->names[adr[id]]) {", "  if (id >= 0 && id <= num && m->names[adr[id]]) {", "rule=R-BOUNDS construct=mj_id2name")
mut("c34-mapsize", "C34", IO, "nnumeric + ntext + ntuple + nkey + nplugin;", "nnumeric + ntext + ntuple + nkey;", "rule=R-MAPSIZE")
# ---- C01
mut("c01-static-counter", "C01", FW, "void mj_fwdVelocity(const mjModel* m, mjData* d) {\n  TM_START;", "void mj_fwdVelocity(const mjModel* m, mjData* d) {\n  static int ncalls = 0;\n  ncalls++;\n  TM_START;", "rule=R-GLOBAL construct=mj_fwdVelocity")
mut("c01-static-const-ok", "C01", FW, "void mj_fwdVelocity(const mjModel* m, mjData* d) {\n  TM_START;", "void mj_fwdVelocity(const mjModel* m, mjData* d) {\n  static const int kTable[2] = {1, 2};\n  (void)kTable;\n  TM_START;", None)
mut("c01-getenv", "C01", FW, "void mj_fwdVelocity(const mjModel* m, mjData* d) {\n  TM_START;", "void mj_fwdVelocity(const mjModel* m, mjData* d) {\n  if (getenv(\"MJ_SKIPVEL\")) return;\n  TM_START;", "rule=R-GLOBAL construct=mj_fwdVelocity")
mut("c01-no-clear", "C01", ED, "  d->ncon = 0;\n  resetArena(d);\n  mj_clearEfc(d);", "  d->ncon = 0;\n  resetArena(d);", "rule=R-ARENA-STALE")
# ---- C02
mut("c02-arena-in-task", "C02", FW, "static void solveIslandTask(const mjModel* m, mjData* d, void* arg, int thread_id, int island) {", "static void solveIslandTask(const mjModel* m, mjData* d, void* arg, int thread_id, int island) {\n  (void)mj_arenaAllocByte(d, 8, 8);", "rule=R-TASK construct=solveIslandTask:solveIslandTask:arena")
mut("c02-drop-tls", "C02", "src/engine/engine_collision_convex.c", "static mjTHREADLOCAL void* ccd_buffer = NULL;", "static void* ccd_buffer = NULL;", "rule=R-TASK")
mut("c02-scalar-write", "C02", FW, "static void solveIslandTask(const mjModel* m, mjData* d, void* arg, int thread_id, int island) {", "static void solveIslandTask(const mjModel* m, mjData* d, void* arg, int thread_id, int island) {\n  d->nisland = d->nisland;", "rule=R-TASK construct=solveIslandTask:solveIslandTask:scalar")
mut("c02-unlock-order", "C02", "src/engine/engine_thread.cc", "    d->threadlock = false;\n    mj_freeStack(d);", "    mj_freeStack(d);\n    d->threadlock = false;", "rule=R-DISPATCH construct=mju_dispatch:bracket")
mut("c02-serial-skip0", "C02", "src/engine/engine_thread.cc", "    for (int i = 0; i < ntask; i++) {\n      func(m, d, arg, 0, i);", "    for (int i = 1; i < ntask; i++) {\n      func(m, d, arg, 0, i);", "rule=R-DISPATCH construct=mju_dispatch:serial-fallback")


def _run_one(m):
    parts = ["include", "src", "cmake", "CMakeLists.txt", "plugin"]
    try:
        with scratch.scratch(parts) as root:
            if m["old"] is None:
                # special: rename local `adr` in engine_support.c
                p = os.path.join(root, m["file"])
                s = open(p).read()
                s2 = re.sub(r"\badr\b", "cursor", s)
                if s2 == s:
                    return m["id"], "stale", ""
                open(p, "w").write(s2)
            else:
                try:
                    scratch.edit(root, m["file"], m["old"], m["new"])
                except RuntimeError:
                    return m["id"], "stale", ""
            rc, out = scratch.run_check(m["pid"], root)
    except Exception as e:  # pragma: no cover
        return m["id"], "error", str(e)
    lines = [l for l in out.splitlines() if "rule=" in l and not l.startswith("KNOWN-FINDING")]
    if rc == 2:
        # a mutant the analyser refuses to analyse is fail-closed, acceptable for must-fire mutants only
        return m["id"], ("refused" if m["expect"] else "control-refused"), out[-300:]
    if m["expect"] is None:
        return m["id"], ("silent" if rc == 0 and not lines else "control-fired"), "\n".join(lines[:2])
    hit = [l for l in lines if m["expect"] in l]
    return m["id"], ("fired" if hit and rc == 1 else "missed"), "\n".join(lines[:2])


def run(pid, res, jobs=8):
    ms = [m for m in M if m["pid"] == pid]
    if not ms:
        return
    seed = int(os.environ.get("VERIF_SEED", "0") or 0)
    random.Random(seed).shuffle(ms)
    res.rule("SELFTEST", "scratch-copy mutants must be reported naming the construct; controls must stay silent", floor=0)
    with cf.ThreadPoolExecutor(max_workers=jobs) as ex:
        results = list(ex.map(_run_one, ms))
    bad = []
    summary = {}
    for mid, status, detail in results:
        summary[mid] = status
        if status in ("fired", "silent", "refused"):
            res.ok("SELFTEST", mid, {"status": status})
        elif status == "stale":
            res.count("selftest_stale")
        else:
            bad.append((mid, status, detail))
    res.extra["selftest"] = summary
    if bad:
        raise AnalysisError("checker self-test failed: " + "; ".join(f"{m}: {s} [{d[:200]}]" for m, s, d in bad))


# ---------------------------------------------------------------------------------------------------------------------
# stored artefacts as self-test: behaviour-preserving refactors (negative controls) and seeded defects (positive controls)

def _touched(patch):
    out = set()
    try:
        for line in open(patch, errors="replace"):
            if line.startswith("+++ b/"):
                out.add(line[6:].strip())
    except OSError:
        pass
    return out


def run_stored(pid, res):
    """Thorough tier: on one scratch copy, (a) every stored refactor under /verif/refactors that touches a file the property is
    anchored in (or that its checker is known to read) must leave the check silent, (b) every stored seeded change of this
    property recorded as detected must be reported.  Failures make the run an ANALYSIS-ERROR (the checker is wrong, not /repo)."""
    import json
    import subprocess
    from .cfront import VERIF
    base = VERIF
    anchors = set()
    try:
        for line in open(os.path.join(base, "properties.jsonl")):
            p = json.loads(line)
            if p["id"] == pid:
                anchors = set(p["anchors"]["files"])
    except OSError:
        return
    rdir = os.path.join(base, "refactors")
    sdir = os.path.join(base, "seeded")
    controls = []
    if os.path.isdir(rdir):
        for n in sorted(os.listdir(rdir)):
            pf = os.path.join(rdir, n, "patch.diff")
            if os.path.isfile(pf) and (_touched(pf) & anchors):
                controls.append((n, pf))
    seeds = []
    if os.path.isdir(sdir):
        for n in sorted(os.listdir(sdir)):
            mf = os.path.join(sdir, n, "meta.json")
            pf = os.path.join(sdir, n, "patch.diff")
            if n.startswith(pid + "-") and os.path.isfile(mf) and os.path.isfile(pf):
                try:
                    det = json.load(open(mf))["check_result"]["detected"]
                except Exception:
                    continue
                if det == "yes":
                    seeds.append((n, pf))
    if not controls and not seeds:
        return
    res.rule("STORED", "stored behaviour-preserving refactors leave the check silent; stored seeded defects recorded as detected "
             "are reported", floor=0)
    bad = []
    with scratch.scratch() as root:
        rc0, out0 = scratch.run_check(pid, root)
        if rc0 == 2:
            raise AnalysisError(f"stored-artefact self-test: baseline is an analysis error: {out0[-300:]}")
        for kind, items in (("refactor", controls), ("seed", seeds)):
            for n, pf in items:
                a = subprocess.run(["git", "apply", "--unsafe-paths", "--directory", root, pf], cwd="/", capture_output=True, text=True)
                if a.returncode != 0:
                    a = subprocess.run(["patch", "-p1", "-s", "-d", root, "-i", pf], capture_output=True, text=True)
                if a.returncode != 0:
                    res.count("stored_patches_not_applicable")
                    subprocess.run(["patch", "-p1", "-s", "-R", "-f", "-d", root, "-i", pf], capture_output=True, text=True)
                    continue
                try:
                    rc, out = scratch.run_check(pid, root)
                finally:
                    r = subprocess.run(["patch", "-p1", "-s", "-R", "-d", root, "-i", pf], capture_output=True, text=True)
                    if r.returncode != 0:
                        raise AnalysisError(f"stored-artefact self-test: cannot undo {n}")
                if kind == "refactor":
                    if rc == rc0:
                        res.ok("STORED", f"refactor:{n}", {"status": "silent"})
                    else:
                        bad.append((n, f"behaviour-preserving refactor changes the result (exit {rc0} -> {rc}): " +
                                    "; ".join(l[:160] for l in out.splitlines() if "rule=" in l and not l.startswith("KNOWN"))[:400]))
                else:
                    if rc == 1:
                        res.ok("STORED", f"seed:{n}", {"status": "reported"})
                    else:
                        bad.append((n, f"seeded defect recorded as detected is not reported (exit {rc})"))
    if bad:
        raise AnalysisError("stored-artefact self-test failed: " + "; ".join(f"{a}: {b}" for a, b in bad)[:1500])
