"""R-NULLABLE / R-STATUS: null discipline of nullable producers on all paths.

Producers: a base set (mj_arenaAllocByte, acquireGeom, ...) plus wrappers inferred by
fixpoint (a pointer-returning function that can return a produced value unchecked, or NULL
on a path where a produced value was found NULL).  A wrapper that ends the path on NULL
(effAlloc) returns non-null and is not a producer.

Per call site of a producer (obligation):
  N1  on every path, the produced value is tested before it is dereferenced, stored
      through, indexed, or passed to a callee;  the test must be on THAT value
  N2  on the NULL branch the value is never dereferenced
  N3  (report) the NULL branch reaches a report call (warning/error/status) before leaving
  N4  (unwind) if the value was stored to an mjData arena pointer field, the NULL branch calls
      a function that clears that field (slot filled from the code: whoever assigns NULL)
R-STATUS: functions whose integer return value distinguishes the NULL path are status
functions; their call sites must consume the result.
"""
from __future__ import annotations

from . import cir, paths

REPORT_CALLS = {"mj_warning", "mju_warning", "mju_warning_i", "mju_warning_s", "mju_error", "mju_message"}


def _rhs_call(n):
    """The call expression an rvalue reduces to through casts/parens, or None."""
    n = cir.strip(n)
    if cir.is_call(n):
        return n
    return None


class NullRule(paths.Rule):
    use_kinds = frozenset({"ArraySubscriptExpr", "UnaryOperator", "MemberExpr"})

    def __init__(self, producers, clearers, null_safe=(), report_calls=REPORT_CALLS, status_writes=()):
        self.producers = producers        # set of callee names
        self.clearers = clearers          # field text suffix (after '->') -> set of function names
        self.null_safe = set(null_safe)
        self.report_calls = set(report_calls)
        self.status_writes = set(status_writes)   # lvalue texts whose assignment counts as a report

    # state: frozenset of (text, status, site_line, reported, cleared)
    def initial(self, fn):
        return frozenset()

    @staticmethod
    def _find(state, text):
        for e in state:
            if e[0] == text:
                return e
        return None

    @staticmethod
    def _drop(state, text):
        return frozenset(e for e in state if e[0] != text)

    def _track(self, state, text, site, ctx):
        ctx.sites.setdefault((site, text), {"text": text, "tested": False, "line": site})
        return self._drop(state, text) | {(text, "U", site, False, False)}

    def assign(self, state, node, ctx):
        k = node.get("k")
        if k == "VarDecl":
            lhs_text = node.get("n")
            init = [c for c in cir.kids(node) if c is not None and not c.get("k", "").endswith("Attr")]
            rhs = init[-1] if init else None
        elif k in ("BinaryOperator",) and node.get("op") == "=":
            c = cir.kids(node)
            lhs_text = cir.text(c[0])
            rhs = c[1]
            if lhs_text in self.status_writes and state:
                state = frozenset((e[0], e[1], e[2], True if e[1] == "N" else e[3], e[4]) for e in state)
        else:
            # compound assignment / ++ on a tracked pointer: treated as a use
            c = cir.kids(node)
            t = cir.text(c[0]) if c else None
            e = self._find(state, t)
            if e is not None:
                ctx.report(node, f"arithmetic on possibly-NULL result `{t}` of producer call at line {e[2]}",
                           kind="N1", site=e[2], text=t)
            return state
        call = _rhs_call(rhs)
        if call is not None and cir.callee(call) in self.producers:
            return self._track(state, lhs_text, call.get("line"), ctx)
        # alias copy
        r = cir.strip(rhs)
        rt = cir.text(r) if r is not None else None
        e = self._find(state, rt) if rt else None
        if e is not None and r.get("k") in ("DeclRefExpr", "MemberExpr"):
            return self._drop(state, lhs_text) | {(lhs_text, e[1], e[2], e[3], e[4])}
        # direct NULL assignment to a tracked arena field counts as clearing it
        if self._find(state, lhs_text) is not None:
            return self._drop(state, lhs_text)
        return state

    def call(self, state, node, name, ctx):
        if name in self.producers:
            ctx.calls.append(node)
        if not state:
            return state
        # report / clear calls on a NULL path
        new = set()
        changed = False
        for e in state:
            text, st, site, rep, clr = e
            if st == "N":
                if name in self.report_calls and not rep:
                    rep = True
                    changed = True
                fld = text.split("->", 1)[1] if "->" in text else None
                if fld and name in self.clearers.get(fld, ()) and not clr:
                    clr = True
                    changed = True
            elif st == "U":
                fld = text.split("->", 1)[1] if "->" in text else None
                if fld and name in self.clearers.get(fld, ()):
                    # the field was reset to NULL by its clearer: nothing nullable is pending in it
                    changed = True
                    continue
            new.add((text, st, site, rep, clr))
        state = frozenset(new) if changed else state
        # passing a tracked value to a callee
        if name not in self.null_safe:
            for a in cir.args(node):
                s = cir.strip(a)
                if s is None or s.get("k") not in ("DeclRefExpr", "MemberExpr"):
                    continue
                e = self._find(state, cir.text(s))
                if e is not None and name not in self.producers:
                    what = "NULL" if e[1] == "N" else "possibly-NULL"
                    ctx.report(node, f"{what} result `{e[0]}` of producer call at line {e[2]} passed to {name}() "
                               f"without a null test", kind="N1" if e[1] == "U" else "N2", site=e[2], text=e[0])
        return state

    def use(self, state, node, ctx):
        if not state:
            return state
        k = node.get("k")
        base = None
        if k == "ArraySubscriptExpr":
            base = cir.kids(node)[0]
        elif k == "UnaryOperator" and node.get("op") == "*":
            base = cir.kids(node)[0]
        elif k == "MemberExpr" and node.get("arrow"):
            base = cir.kids(node)[0] if cir.kids(node) else None
        if base is None:
            return state
        b = cir.strip(base)
        # pointer arithmetic p + k
        while b is not None and b.get("k") == "BinaryOperator" and b.get("op") in ("+", "-"):
            b = cir.strip(cir.kids(b)[0])
        if b is None:
            return state
        e = self._find(state, cir.text(b))
        if e is not None:
            what = "NULL" if e[1] == "N" else "possibly-NULL (untested)"
            ctx.report(node, f"dereference of {what} result `{e[0]}` of producer call at line {e[2]}",
                       kind="N2" if e[1] == "N" else "N1", site=e[2], text=e[0])
        return state

    def branch(self, state, cond, taken, ctx):
        if not state:
            return state
        nc = paths.norm_cond(cond)
        if nc is None:
            return state
        key, pol, _ = nc
        e = self._find(state, key)
        if e is None:
            return state
        if (e[2], e[0]) in ctx.sites:
            ctx.sites[(e[2], e[0])]["tested"] = True
        nonnull = taken if pol else (not taken)
        if e[1] == "N" and nonnull:
            return None  # infeasible
        st = self._drop(state, key)
        if nonnull:
            return st
        return st | {(key, "N", e[2], e[3], e[4])}

    def _leave(self, state, node, ctx, how):
        for text, st, site, rep, clr in state:
            if st == "N":
                if not rep:
                    ctx.report(node, f"NULL branch of producer call at line {site} ({text}) leaves by {how} without a "
                               f"warning/error report", kind="N3", site=site, text=text)
                fld = text.split("->", 1)[1] if "->" in text else None
                if fld and fld in self.clearers and not clr:
                    ctx.report(node, f"NULL branch of producer call at line {site} leaves by {how} without clearing "
                               f"arena field {text} (no call to {sorted(self.clearers[fld])})", kind="N4", site=site, text=text)
            elif st == "U" and "->" in text:
                # an untested value left in a shared field: the callers cannot know
                ctx.report(node, f"result of producer call at line {site} stored to {text} and never null-tested "
                           f"before {how}", kind="N1", site=site, text=text)

    def ret(self, state, node, ctx):
        c = [x for x in cir.kids(node) if x is not None]
        if c:
            r = cir.strip(c[0])
            call = _rhs_call(c[0])
            if call is not None and cir.callee(call) in self.producers:
                ctx.returns_nullable = True
                ctx.calls_returned.add(call.get("line"))
            if r is not None:
                e = self._find(state, cir.text(r))
                if e is not None and e[1] in ("U", "N"):
                    ctx.returns_nullable = True
                    state = self._drop(state, e[0])
                # status: integer literal returned; remember per path kind
                if r.get("k") == "IntegerLiteral":
                    kind = "null" if any(x[1] == "N" for x in state) else "ok"
                    ctx.ret_literals.setdefault(kind, set()).add(str(r.get("v")))
                elif _is_null(r) and any(x[1] == "N" for x in state):
                    ctx.returns_nullable = True
        self._leave(state, node, ctx, "return")

    def fallthrough(self, state, ctx):
        self._leave(state, ctx.fn, ctx, "function end")

    def noreturn(self, state, node, ctx):
        # the error handler reports; nothing else required
        return


def _is_null(r):
    return r.get("k") in ("GNUNullExpr", "CXXNullPtrLiteralExpr") or \
        (r.get("k") == "IntegerLiteral" and str(r.get("v")) == "0")


def clearers_of(unit):
    """field name -> functions of this unit that assign NULL/0 to  <ptr>->field ."""
    out = {}
    for name, fn in unit.funcs.items():
        for n in cir.walk(fn):
            if n.get("k") == "BinaryOperator" and n.get("op") == "=":
                lhs, rhs = cir.kids(n)
                l = cir.strip(lhs)
                r = cir.strip(rhs)
                if l is not None and l.get("k") == "MemberExpr" and l.get("arrow") and r is not None and _is_null(r) \
                        and "*" in (l.get("t") or ""):
                    out.setdefault(l.get("n"), set()).add(name)
    return out


def analyse_unit(unit, producers, clearers, null_safe=(), status_writes=(), report_calls=None):
    """Per-TU: obligations at each producer call site + inferred wrappers/status functions."""
    producers = set(producers)
    clr = {k: set(v) for k, v in clearers.items()}
    # transitive: a function that calls a clearer of F clears F (one level is what the repo uses)
    res = {}
    # static helpers that never reach a producer (recovery / reporting sequences factored out of the allocation sites) are
    # analysed in place: the obligations of a call site may be discharged inside such a helper
    from . import norm
    direct = {name: {cir.callee(c) for c in cir.calls(fn)} for name, fn in unit.funcs.items()}
    reach = {name for name, cs in direct.items() if cs & producers}
    changed = True
    while changed:
        changed = False
        for name, cs in direct.items():
            if name not in reach and cs & reach:
                reach.add(name)
                changed = True
    inl = norm.Inliner(unit, depth=3, pred=lambda h: h.get("storageClass") == "static" and h.get("n") not in reach
                       and h.get("n") not in producers and h.get("file") in (None, unit.tu))
    for name, fn in unit.funcs.items():
        if name in producers and fn.get("storageClass") != "static":
            pass
        called = direct[name]
        if not (called & producers):
            continue
        rule = NullRule(producers, clr, null_safe, report_calls or REPORT_CALLS, status_writes)
        fn = inl.expand(fn)
        ex = paths.Explorer(rule, unit, fn)
        ctx = ex.ctx
        ctx.sites = {}
        ctx.calls = []
        ctx.calls_returned = set()
        ctx.returns_nullable = False
        ctx.ret_literals = {}
        ex.run()
        # call sites whose value is neither stored nor returned nor tested: discarded / used inline
        site_lines = {k[0] for k in ctx.sites} | ctx.calls_returned
        inline = []
        seen = set()
        for c in ctx.calls:
            key = (c.get("line"), c.get("off"))
            if key in seen:
                continue
            seen.add(key)
            if c.get("line") not in site_lines:
                inline.append(c.get("line"))
        lits = ctx.ret_literals
        status = bool(lits.get("null")) and bool(lits.get("ok")) and not (lits["null"] & lits["ok"])
        res[name] = {
            "file": fn.get("file") or unit.tu, "line": fn.get("line"),
            "static": fn.get("storageClass") == "static",
            "ptr_return": "*" in (fn.get("t") or "").split("(")[0],
            "sites": sorted(ctx.sites.values(), key=lambda s: s["line"]),
            "ncalls": len(seen),
            "inline": inline,
            "returns_nullable": ctx.returns_nullable,
            "status": status, "ret_literals": {k: sorted(v) for k, v in lits.items()},
            "reports": ctx.reports,
        }
    return res


def status_callsites(unit, status_funcs):
    """Call sites of status functions whose result is discarded."""
    out = []
    for name, fn in unit.funcs.items():
        b = cir.body(fn)
        for n in cir.walk(b):
            # expression statements are direct children of compound/if/for/while bodies
            for c in cir.kids(n):
                if c is None:
                    continue
                if n.get("k") in ("CompoundStmt", "IfStmt", "ForStmt", "WhileStmt", "DoStmt", "CaseStmt",
                                  "DefaultStmt", "LabelStmt", "SwitchStmt"):
                    s = c
                    discarded = False
                    x = s
                    if x.get("k") == "CStyleCastExpr" and (x.get("t") == "void"):
                        x = cir.strip(x)
                        discarded = True
                    if cir.is_call(x) and cir.callee(x) in status_funcs:
                        # is it really in statement position?  (if-conditions are children of IfStmt too)
                        pos = cir.kids(n).index(c)
                        stmt_pos = True
                        if n.get("k") == "IfStmt":
                            stmt_pos = pos >= (1 + bool(n.get("hasInit")) + bool(n.get("hasVar")))
                        elif n.get("k") == "ForStmt":
                            stmt_pos = pos in (0, 3, 4)
                        elif n.get("k") == "WhileStmt":
                            stmt_pos = pos == len(cir.kids(n)) - 1
                        elif n.get("k") == "DoStmt":
                            stmt_pos = pos == 0
                        elif n.get("k") == "SwitchStmt":
                            stmt_pos = pos == len(cir.kids(n)) - 1
                        elif n.get("k") == "CaseStmt":
                            stmt_pos = pos == len(cir.kids(n)) - 1
                        if stmt_pos:
                            out.append({"function": name, "callee": cir.callee(x), "line": x.get("line"),
                                        "file": fn.get("file") or unit.tu, "void_cast": discarded})
    return out


def all_callsites(unit, names):
    out = []
    for fname, fn in unit.funcs.items():
        for c in cir.calls(fn, names):
            out.append({"function": fname, "callee": cir.callee(c), "line": c.get("line"),
                        "file": fn.get("file") or unit.tu})
    return out
