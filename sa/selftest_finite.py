"""Self-test of the C14 / C16 / C22 checkers: scratch-copy mutants that must be reported, controls that must stay silent.

    python3-vt -m sa.selftest_finite [C14|C16|C22 ...] [-k substring]

One scratch copy of the repository (outside /repo and /verif) is edited, checked and restored per mutant.  A mutant "fires"
when the check prints a `rule=<R> construct=<C>` line containing the expected text that the unchanged scratch copy does not
print; a control is "silent" when the set of reported (rule, construct) pairs equals the baseline's.  Exit 0 iff every mutant
fires and every control is silent.
"""
from __future__ import annotations

import os
import re
import sys
import time

from . import scratch

ED = "src/engine/engine_collision_driver.c"
SH = "src/engine/engine_sort.h"
RY = "src/engine/engine_ray.c"
UM = "src/engine/engine_util_misc.c"
SE = "src/engine/engine_sensor.c"
RG = "src/render/classic/render_gl3.c"

M = []


def mut(mid, pid, file, old, new, expect):
    M.append({"id": mid, "pid": pid, "file": file, "old": old, "new": new, "expect": expect})


# ------------------------------------------------------------------------------------------------ C14
mut("c14-flip-operand", "C14", ED, "return !(contype1 & conaffinity2) && !(contype2 & conaffinity1);",
    "return !(contype1 & conaffinity1) && !(contype2 & conaffinity1);", "rule=R-FINITE construct=filterCollisionPair:filterBitmask-site")
mut("c14-or-for-and", "C14", ED, "return !(contype1 & conaffinity2) && !(contype2 & conaffinity1);",
    "return !(contype1 & conaffinity2) || !(contype2 & conaffinity1);", "rule=R-FINITE construct=canCollide2:filterBitmask-site")
mut("c14-swap-site-args", "C14", ED, "    } else if (filterBitmask(m->geom_contype[g1], m->geom_conaffinity[g1],\n                             m->geom_contype[g2], m->geom_conaffinity[g2])) {",
    "    } else if (filterBitmask(m->geom_contype[g1], m->geom_conaffinity[g1],\n                             m->geom_conaffinity[g2], m->geom_contype[g2])) {",
    "rule=R-FINITE construct=filterCollisionPair:filterBitmask-site")
mut("c14-addpair-flip", "C14", ED, "      if (!(contype1 & conaffinity2) && !(contype2 & conaffinity1)) {\n        return;",
    "      if (!(contype1 & conaffinity2) && !(contype2 & conaffinity2)) {\n        return;", "rule=R-FINITE construct=add_pair:inline-bitmask")
mut("c14-addpair-and-lift", "C14", ED, "          contype1 |= m->geom_contype[i];", "          contype1 &= m->geom_contype[i];", "rule=R-FINITE construct=add_pair:or-lift:contype1")
mut("c14-cancollide-polarity", "C14", ED, "  return (!filterBitmask(contype1, conaffinity1, contype2, conaffinity2));",
    "  return (filterBitmask(contype1, conaffinity1, contype2, conaffinity2));", "rule=R-FINITE construct=mj_collision:canCollide2-polarity")
mut("c14-drop-exclude", "C14", ED, "      if (exadr < nexclude && m->exclude_signature[exadr] == signature) {\n        continue;\n      }\n", "",
    "rule=R-MUSTPASS construct=mj_collision:exclude-before:mj_collideTree")
mut("c14-exclude-no-skip", "C14", ED, "      if (exadr < nexclude && m->exclude_signature[exadr] == signature) {\n        continue;\n      }\n",
    "      if (exadr < nexclude && m->exclude_signature[exadr] == signature) {\n        ngeompair += 0;\n      }\n",
    "rule=R-MUSTPASS construct=mj_collision:exclude-before:pushGeomGeom#1")
mut("c14-drop-pair-filter", "C14", ED, "      if (filterCollisionPair(m, d, geomadr1, geomadr2, -1, merged, startadr, pairadr)) {\n        pushGeomGeom(m, d, geomadr1, geomadr2, -1);\n        ngeompair++;\n      }",
    "      {\n        pushGeomGeom(m, d, geomadr1, geomadr2, -1);\n        ngeompair++;\n      }", "rule=R-MUSTPASS construct=mj_collision:pushGeomGeom(-1)#1")
mut("c14-filter-other-pair", "C14", ED, "            if (filterCollisionPair(m, d, g1, g2, -1, merged, startadr, pairadr)) {\n              pushGeomGeom(m, d, g1, g2, -1);",
    "            if (filterCollisionPair(m, d, g1, geomadr2, -1, merged, startadr, pairadr)) {\n              pushGeomGeom(m, d, g1, g2, -1);",
    "rule=R-MUSTPASS construct=mj_collision:pushGeomGeom(-1)#2")
mut("c14-drop-contact-flag", "C14", ED, "  if (mjDISABLED(mjDSBL_CONSTRAINT) || mjDISABLED(mjDSBL_CONTACT) || nbodyflex < 2) {",
    "  if (mjDISABLED(mjDSBL_CONSTRAINT) || nbodyflex < 2) {", "rule=R-MUSTPASS construct=mj_collision:early-return:mjDSBL_CONTACT")
mut("c14-flag-after-broadphase", "C14", ED, "  // return if disabled\n  if (mjDISABLED(mjDSBL_CONSTRAINT) || mjDISABLED(mjDSBL_CONTACT) || nbodyflex < 2) {\n    TM_END1(mjTIMER_POS_COLLISION);\n    return;\n  }\n",
    "  int early = mj_broadphase(m, d, NULL, 0);\n  if (mjDISABLED(mjDSBL_CONSTRAINT) || mjDISABLED(mjDSBL_CONTACT) || nbodyflex < 2 || early < 0) {\n    TM_END1(mjTIMER_POS_COLLISION);\n    return;\n  }\n",
    "rule=R-MUSTPASS construct=mj_collision:early-return:mjDSBL_CONTACT")
mut("c14-explicit-bitmask", "C14", ED, "  if (ipair < 0) {\n    if (mjcb_contactfilter) {", "  {\n    if (mjcb_contactfilter) {", "rule=R-MUSTPASS construct=filterCollisionPair:explicit")
mut("c14-implicit-no-bitmask", "C14", ED, "  if (ipair < 0) {\n    if (mjcb_contactfilter) {", "  if (ipair < -1) {\n    if (mjcb_contactfilter) {", "rule=R-MUSTPASS construct=filterCollisionPair:implicit")
mut("c14-explicit-margin", "C14", ED, "    return mj_assignMargin(m, m->pair_margin[ipair]);", "    return mj_assignMargin(m, m->geom_margin[g1]);", "rule=R-MUSTPASS construct=getMargin:explicit-params")
mut("c14-explicit-geoms", "C14", ED, "  for (; pairadr < npair; pairadr++) {\n    g1 = m->pair_geom1[pairadr], g2 = m->pair_geom2[pairadr];",
    "  for (; pairadr < npair; pairadr++) {\n    g1 = m->pair_geom1[pairadr], g2 = m->pair_geom1[pairadr];", "rule=R-MUSTPASS construct=mj_collision:pushGeomGeom(explicit)#2")
mut("c14-midphase-leaf", "C14", ED, "            if (filterCollisionPair(m, d, nodeid1, nodeid2, -1, merged, startadr, pairadr)) {\n              int n1 = nodeid1, n2 = nodeid2;",
    "            if (merged >= 0) {\n              int n1 = nodeid1, n2 = nodeid2;", "rule=R-MUSTPASS construct=mj_collideTree:mj_narrowphase(&pair)")
mut("c14-flex-bitmask", "C14", ED, "          if (filterBitmask(m->geom_contype[g], m->geom_conaffinity[g],\n                            m->flex_contype[f], m->flex_conaffinity[f])) {\n            continue;\n          }\n", "",
    "rule=R-MUSTPASS construct=mj_collision:mj_collideGeomElem")
mut("c14-drop-bodyfilter", "C14", ED, "        if (filterBodyPair(weld1, parent_weld1, 0, dofnum1,\n                           weld2, parent_weld2, asleep2, dofnum2,\n                           dsbl_filterparent)) {\n          continue;\n        }\n", "",
    "rule=R-MUSTPASS construct=mj_broadphase:add_pair(b1, b2)")
mut("c14-bodyfilter-args", "C14", ED, "        if (filterBodyPair(weld1, parent_weld1, asleep1, dofnum1,\n                           weld2, parent_weld2, asleep2, dofnum2,",
    "        if (filterBodyPair(weld1, parent_weld1, asleep1, dofnum1,\n                           weld2, parent_weld1, asleep2, dofnum2,", "rule=R-FINITE construct=mj_broadphase:filterBodyPair-site2")
mut("c14-parent-unguarded", "C14", ED, "  if ((!dsbl_filterparent && weldbody1 != 0 && weldbody2 != 0) &&", "  if ((weldbody1 != 0 && weldbody2 != 0) &&", "rule=R-FINITE construct=filterBodyPair:parent-guard")
mut("c14-parent-dropped", "C14", ED, "      (weldbody1 == weldparent2 || weldbody2 == weldparent1)) {", "      (weldbody1 == weldparent2)) {", "rule=R-FINITE construct=filterBodyPair:parent-child")
mut("c14-same-weld", "C14", ED, "  if (weldbody1 == weldbody2) {\n    return 1;", "  if (weldbody1 == weldparent2) {\n    return 1;", "rule=R-FINITE construct=filterBodyPair:same-weld")
mut("c14-cmp-drop-side", "C14", ED, "  if (con1_obj2 > con2_obj2) return 1;\n", "", "rule=R-CMP construct=contactcompare:antisymmetry")
mut("c14-cmp-sap", "C14", ED, "  if (obj1->value < obj2->value) {\n    return -1;", "  if (obj1->value <= obj2->value) {\n    return -1;", "rule=R-CMP construct=SAPcmp:antisymmetry")
mut("c14-cmp-uint", "C14", ED, "  } else if (*i == *j) {\n    return 0;\n  } else {\n    return 1;\n  }\n}\n\n// define bfsort", "  } else if (*i == *j) {\n    return 0;\n  } else {\n    return -1;\n  }\n}\n\n// define bfsort",
    "rule=R-CMP construct=uintcmp:antisymmetry")
# controls
mut("c14-ok-demorgan", "C14", ED, "return !(contype1 & conaffinity2) && !(contype2 & conaffinity1);",
    "return !((contype1 & conaffinity2) || (conaffinity1 & contype2));", None)
mut("c14-ok-not-lt", "C14", ED, "  if (ipair < 0) {\n    if (mjcb_contactfilter) {", "  if (!(ipair >= 0)) {\n    if (mjcb_contactfilter) {", None)
mut("c14-ok-reorder", "C14", ED, "  // same weldbody check\n  if (weldbody1 == weldbody2) {\n    return 1;\n  }\n\n  // both dof-less: no forces can act, skip\n  if (dofnum1 == 0 && dofnum2 == 0) {\n    return 1;\n  }\n",
    "  // both dof-less: no forces can act, skip\n  if (!(dofnum1 != 0) && dofnum2 == 0) {\n    return 1;\n  }\n\n  // same weldbody check\n  if (weldbody1 == weldbody2) {\n    return 1;\n  }\n", None)
mut("c14-ok-rename", "C14", ED, ("con1_obj1", "con2_obj1", "weldbody1", "exadr"), ("first_a", "first_b", "wb_one", "excl_cursor"), None)
mut("c14-ok-helper", "C14", ED, ("// main collision function\nvoid mj_collision(",
                                 "    int exadr = 0;\n    if (nexclude) {\n      // advance exadr while exclude_signature < signature\n      while (exadr < nexclude && m->exclude_signature[exadr] < signature) {\n        exadr++;\n      }\n\n      // skip this bodyflex pair if its signature is found in exclude array\n      if (exadr < nexclude && m->exclude_signature[exadr] == signature) {\n        continue;\n      }\n    }\n"),
    ("static int isExcluded(const mjModel* m, unsigned int signature) {\n  int k = 0;\n  while (k < m->nexclude && m->exclude_signature[k] < signature) k++;\n  return k < m->nexclude && m->exclude_signature[k] == signature;\n}\n\n// main collision function\nvoid mj_collision(",
     "    if (nexclude && isExcluded(m, signature)) {\n      continue;\n    }\n"), None)
mut("c14-ok-drop-prefilter", "C14", ED, "    // apply bitmask filtering at the bodyflex level\n    if (!canCollide2(m, bf1, bf2)) {\n      continue;\n    }\n", "", None)

# ------------------------------------------------------------------------------------------------ C22
mut("c22-merge-lt", "C22", SH, "    if (cmp(src + i, src + j, context) <= 0) {", "    if (cmp(src + i, src + j, context) < 0) {", "rule=R-FINITE construct=contactSort:merge-tie")
mut("c22-merge-swapped-gt", "C22", SH, "    if (cmp(src + i, src + j, context) <= 0) {", "    if (cmp(src + j, src + i, context) > 0) {", "rule=R-FINITE construct=bfsort:merge-tie")
mut("c22-insert-ge", "C22", SH, "    for (; k >= start && cmp(arr + k, &tmp, context) > 0; k--) {", "    for (; k >= start && cmp(arr + k, &tmp, context) >= 0; k--) {",
    "rule=R-FINITE construct=SAPsort:insertion-shift")
mut("c22-insert-bound", "C22", SH, "    for (; k >= start && cmp(arr + k, &tmp, context) > 0; k--) {", "    for (; k > start && cmp(arr + k, &tmp, context) > 0; k--) {",
    "rule=R-BOUNDS construct=geomSort:insertion-bound")
mut("c22-insert-store", "C22", SH, "      arr[k + 1] = arr[k];                                                                         \\\n    }                                                                                              \\\n    arr[k + 1] = tmp;",
    "      arr[k + 1] = arr[k];                                                                         \\\n    }                                                                                              \\\n    arr[k] = tmp;",
    "rule=R-FINITE construct=ContactSelect:insertion-store")
mut("c22-tail-left", "C22", SH, "memcpy(dest + k, src + i, (mid - i) * sizeof(type));", "memcpy(dest + k, src + i, (mid - start) * sizeof(type));", "rule=R-BOUNDS construct=contactSort:merge-tail-left")
mut("c22-tail-right", "C22", SH, "memcpy(dest + k, src + j, (end - j) * sizeof(type));", "memcpy(dest + k, src + j, (end - mid) * sizeof(type));", "rule=R-BOUNDS construct=contactSort:merge-tail-right")
mut("c22-tail-cursor", "C22", SH, "memcpy(dest + k, src + j, (end - j) * sizeof(type));", "memcpy(dest + i, src + j, (end - j) * sizeof(type));", "rule=R-BOUNDS construct=SAPsort:merge-tail-right")
mut("c22-ok-tail-equiv", "C22", SH, "memcpy(dest + k, src + j, (end - j) * sizeof(type));", "memcpy(dest + j, src + j, (end - j) * sizeof(type));", None)   # k == j once the left run is exhausted
mut("c22-run-clip", "C22", SH, "      int end = (start + _mjRUNSIZE < n) ? start + _mjRUNSIZE : n;", "      int end = start + _mjRUNSIZE;", "rule=R-BOUNDS construct=bfsort:run-bounds")
mut("c22-merge-clip", "C22", SH, "        int end = (start + 2*len < n) ? start + 2*len : n;", "        int end = (start + 2*len <= n) ? start + 2*len : n - 1;", "rule=R-BOUNDS construct=contactSort:pass-bounds")
mut("c22-mid", "C22", SH, "        int mid = start + len;                                                                     \\", "        int mid = start + len + 1;                                                                 \\", "rule=R-BOUNDS construct=contactSort:pass-bounds")
mut("c22-guard", "C22", SH, "        if (mid < end) {", "        if (mid <= end) {", "rule=R-BOUNDS construct=contactSort:merge-guard")
mut("c22-copyback", "C22", SH, "    if (src != arr) memcpy(arr, src, n * sizeof(type));", "    if (src == arr) memcpy(arr, src, n * sizeof(type));", "rule=R-COPYBACK construct=contactSort:copy-back")
mut("c22-copyback-len", "C22", SH, "    if (src != arr) memcpy(arr, src, n * sizeof(type));", "    if (src != arr) memcpy(arr, src, n);", "rule=R-COPYBACK construct=SAPsort:copy-back")
mut("c22-swap", "C22", SH, "      tmp = src; src = dest; dest = tmp;", "      tmp = src; dest = tmp;", "rule=R-COPYBACK construct=bfsort:buffer-swap")
mut("c22-helper-ge", "C22", UM, "    while (j >= 0 && list[j] > x) {\n      list[j+1] = list[j];\n      j--;\n    }\n    list[j+1] = x;\n  }\n}\n\n\n// integer insertion sort",
    "    while (j >= 0 && list[j] >= x) {\n      list[j+1] = list[j];\n      j--;\n    }\n    list[j+1] = x;\n  }\n}\n\n\n// integer insertion sort", "rule=R-FINITE construct=mju_insertionSort:insertion-shift")
mut("c22-helper-bound", "C22", UM, "    int x = list[i];\n    int j = i-1;\n    while (j >= 0 && list[j] > x) {", "    int x = list[i];\n    int j = i-1;\n    while (j > 0 && list[j] > x) {",
    "rule=R-BOUNDS construct=mju_insertionSortInt:insertion-bound")
mut("c22-partial-scan", "C22", SH, "      if (cmp(arr + i, buf, context) < 0) {", "      if (cmp(arr + i, buf, context) > 0) {", "rule=R-FINITE construct=ContactSelect:heap-scan")
mut("c22-partial-sift", "C22", SH, "    if (cmp(buf + swap, buf + child, context) < 0) swap = child;", "    if (cmp(buf + swap, buf + child, context) > 0) swap = child;", "rule=R-FINITE construct=ContactSelect:heap-sift#1")
mut("c22-partial-guard", "C22", SH, "    if (k <= 0 || n < k) return;", "    if (k <= 0) return;", "rule=R-BOUNDS construct=ContactSelect:partial-guard")
mut("c22-cmp-sensor", "C22", SE, "  if (a->id > b->id) return 1;\n", "", "rule=R-CMP construct=ContactInfoCompare:antisymmetry")
mut("c22-cmp-render", "C22", RG, "  if (d1 < d2) {\n    return -1;\n  } else if (d1 == d2) {", "  if (d1 < d2) {\n    return 1;\n  } else if (d1 == d2) {", "rule=R-CMP construct=geomcmp:antisymmetry")
MERGE_HEAD = "  int i = start, j = mid, k = start;                                                               \\\n  while (i < mid && j < end) {"
mut("c22-sem-fastpath-tie", "C22", SH, MERGE_HEAD,
    "  if (cmp(src + end - 1, src + start, context) <= 0) {                                             \\\n"
    "    memcpy(dest + start, src + mid, (end - mid) * sizeof(type));                                   \\\n"
    "    memcpy(dest + start + (end - mid), src + start, (mid - start) * sizeof(type));                 \\\n"
    "    continue;                                                                                      \\\n"
    "  }                                                                                                \\\n" + MERGE_HEAD,
    "rule=R-SEMANTIC construct=contactSort:merge-region")
mut("c22-ok-fastpath-strict", "C22", SH, MERGE_HEAD,
    "  if (cmp(src + end - 1, src + start, context) < 0) {                                              \\\n"
    "    memcpy(dest + start, src + mid, (end - mid) * sizeof(type));                                   \\\n"
    "    memcpy(dest + start + (end - mid), src + start, (mid - start) * sizeof(type));                 \\\n"
    "    continue;                                                                                      \\\n"
    "  }                                                                                                \\\n" + MERGE_HEAD, None)
mut("c22-sem-sift-right-child-only", "C22", SH, "  while (2 * root + 1 < end) {", "  while (2 * root + 2 < end) {", "rule=R-SEMANTIC construct=ContactSelect:small-arrays")
mut("c22-sem-heapify-start", "C22", SH, "    for (int j = (k - 2) / 2; j >= 0; j--) _mjSIFT_DOWN", "    for (int j = (k - 2) / 2; j > 0; j--) _mjSIFT_DOWN", "rule=R-SEMANTIC construct=ContactSelect:small-arrays")
# controls
mut("c22-ok-not-gt", "C22", SH, "    if (cmp(src + i, src + j, context) <= 0) {", "    if (!(cmp(src + i, src + j, context) > 0)) {", None)
mut("c22-ok-swapped-ge", "C22", SH, "    if (cmp(src + i, src + j, context) <= 0) {", "    if (cmp(src + j, src + i, context) >= 0) {", None)
mut("c22-ok-insert-lt", "C22", SH, "    for (; k >= start && cmp(arr + k, &tmp, context) > 0; k--) {", "    for (; !(k < start) && 0 < cmp(arr + k, &tmp, context); k--) {", None)
mut("c22-ok-clip-form", "C22", SH, "      int end = (start + _mjRUNSIZE < n) ? start + _mjRUNSIZE : n;", "      int end = (n > start + _mjRUNSIZE) ? start + _mjRUNSIZE : n;", None)
mut("c22-ok-rename", "C22", SH, ("  int i = start, j = mid, k = start;", "  while (i < mid && j < end) {", "    if (cmp(src + i, src + j, context) <= 0) {", "       dest[k++] = src[i++];", "      dest[k++] = src[j++];",
                                 "  if      (i < mid) memcpy(dest + k, src + i, (mid - i) * sizeof(type));", "  else if (j < end) memcpy(dest + k, src + j, (end - j) * sizeof(type));"),
    ("  int lo = start, hi = mid, out = start;", "  while (lo < mid && hi < end) {", "    if (cmp(src + lo, src + hi, context) <= 0) {", "       dest[out++] = src[lo++];", "      dest[out++] = src[hi++];",
     "  if      (lo < mid) memcpy(dest + out, src + lo, (mid - lo) * sizeof(type));", "  else if (hi < end) memcpy(dest + out, src + hi, (end - hi) * sizeof(type));"), None)
mut("c22-ok-tail-order", "C22", SH, ("  if      (i < mid) memcpy(dest + k, src + i, (mid - i) * sizeof(type));", "  else if (j < end) memcpy(dest + k, src + j, (end - j) * sizeof(type));"),
    ("  if      (j < end) memcpy(dest + k, src + j, (end - j) * sizeof(type));", "  else if (i < mid) memcpy(dest + k, src + i, (mid - i) * sizeof(type));"), None)

# ------------------------------------------------------------------------------------------------ C16
MR_UPD = "      // update if closer intersection found\n      if (newdist >= 0 && (newdist < dist || dist < 0)) {\n        dist = newdist;\n        if (geomid) *geomid = i;\n        if (normal) mju_copy3(normal, normal_local);\n      }\n    }\n  }\n\n  return dist;\n}\n\n\n// Initializes spherical"
mut("c16-le", "C16", RY, MR_UPD, MR_UPD.replace("newdist < dist", "newdist <= dist"), "rule=R-FINITE construct=mj_ray:update")
mut("c16-drop-nonneg", "C16", RY, MR_UPD, MR_UPD.replace("newdist >= 0 && ", ""), "rule=R-FINITE construct=mj_ray:update")
mut("c16-drop-sentinel", "C16", RY, "            if (x < 0 || sol < x) {\n              x = sol;\n              face_axis = i;", "            if (sol < x) {\n              x = sol;\n              face_axis = i;",
    "rule=R-FINITE construct=ray_box:update")
mut("c16-sentinel-le", "C16", RY, "      // update\n      if (sol >= 0 && (x < 0 || sol < x)) {\n        x = sol;\n        if (normal) mju_copy3(normal, normal_local);\n        if (mark_active)",
    "      // update\n      if (sol >= 0 && (x <= 0 || sol < x)) {\n        x = sol;\n        if (normal) mju_copy3(normal, normal_local);\n        if (mark_active)", "rule=R-FINITE construct=mju_rayTree:update")
mut("c16-nan-unsafe", "C16", RY, MR_UPD, MR_UPD.replace("newdist >= 0 && (newdist < dist || dist < 0)", "!(newdist < 0) && (!(newdist >= dist) || dist < 0)"),
    "rule=R-FINITE construct=mj_ray:update")
mut("c16-hfield-side", "C16", RY, "    if (all[i] >= 0 && (all[i] < x || x < 0)) {", "    if (all[i] >= 0 && (all[i] <= x || x < 0)) {", "rule=R-FINITE construct=mj_rayHfield:update#3")
mut("c16-no-geomid", "C16", RY, MR_UPD, MR_UPD.replace("        if (geomid) *geomid = i;\n", ""), "rule=R-PAIRWRITE construct=mj_ray:companions")
mut("c16-no-normal", "C16", RY, "        dist = newdist;\n        if (geomid) *geomid = i;\n        if (normal) mju_copy3(normal, normal_local);\n      }\n    }\n  }\n\n  return dist;\n}\n\n\n// performs multiple",
    "        dist = newdist;\n        if (geomid) *geomid = i;\n      }\n    }\n  }\n\n  return dist;\n}\n\n\n// performs multiple", "rule=R-PAIRWRITE construct=mju_singleRay:companions")
mut("c16-geomid-alone", "C16", RY, MR_UPD, MR_UPD.replace("      // update if closer intersection found\n", "      if (geomid && newdist >= 0) *geomid = i;\n"), "rule=R-PAIRWRITE construct=mj_ray:geomid-writers")
mut("c16-flex-vertid", "C16", RY, "        x = sol;\n        if (normal) mju_copy3(normal, normal_local);\n        if (vertid) *vertid = v;", "        x = sol;\n        if (normal) mju_copy3(normal, normal_local);",
    "rule=R-PAIRWRITE construct=mj_rayFlex:companions")
mut("c16-capsule-type", "C16", RY, "    if (x < 0 || sol < x) {\n      x = sol;\n      type = 0;\n    }\n  }\n\n  // top cap", "    if (x < 0 || sol < x) {\n      x = sol;\n    }\n  }\n\n  // top cap",
    "rule=R-PAIRWRITE construct=ray_capsule:companions")
mut("c16-init-geomid", "C16", RY, "  // clear result\n  dist = -1;\n  if (geomid) *geomid = -1;\n  if (normal) mju_zero3(normal);\n\n  // loop over geoms", "  // clear result\n  dist = -1;\n  if (normal) mju_zero3(normal);\n\n  // loop over geoms",
    "rule=R-INIT construct=mj_ray:init")
mut("c16-init-dist", "C16", RY, "  // clear result\n  dist = -1;\n  if (geomid) *geomid = -1;\n  if (normal) mju_zero3(normal);\n\n  // get ray spherical", "  // clear result\n  dist = 0;\n  if (geomid) *geomid = -1;\n  if (normal) mju_zero3(normal);\n\n  // get ray spherical",
    "rule=R-INIT construct=mju_singleRay:init")
mut("c16-init-skin", "C16", RY, "  // init solution\n  mjtNum x = -1;\n\n  // process all faces", "  // init solution\n  mjtNum x = 0;\n\n  // process all faces", "rule=R-INIT construct=mju_raySkin:init")
mut("c16-dispatch-swap", "C16", RY, "      if (type == mjGEOM_MESH) {\n        newdist = mj_rayMesh(m, d, i, pnt, vec, p_normal);\n      } else if (type == mjGEOM_HFIELD) {\n        newdist = mj_rayHfield(m, d, i, pnt, vec, p_normal);\n      } else if (type == mjGEOM_SDF) {\n        newdist = mj_raySdf(m, d, i, pnt, vec, p_normal);\n      } else {\n        newdist = mju_rayGeom(d->geom_xpos+3*i, d->geom_xmat+9*i,\n                              m->geom_size+3*i",
    "      if (type == mjGEOM_MESH) {\n        newdist = mj_rayMesh(m, d, i, pnt, vec, p_normal);\n      } else if (type == mjGEOM_HFIELD) {\n        newdist = mj_rayHfield(m, d, i, pnt, vec, p_normal);\n      } else {\n        newdist = mju_rayGeom(d->geom_xpos+3*i, d->geom_xmat+9*i,\n                              m->geom_size+3*i",
    "rule=R-SIBLING construct=dispatch:mjGEOM_SDF")
mut("c16-dispatch-args", "C16", RY, "        newdist = mju_rayGeom(d->geom_xpos+3*i, d->geom_xmat+9*i,\n                              m->geom_size+3*i, pnt, vec, type, p_normal);", "        newdist = mju_rayGeom(d->geom_xpos+3*i, d->geom_xmat+9*i,\n                              m->geom_size+3*b, pnt, vec, type, p_normal);",
    "rule=R-SIBLING construct=dispatch:mjGEOM_BOX")
mut("c16-drop-case", "C16", RY, "  case mjGEOM_ELLIPSOID:\n    return ray_ellipsoid(pos, mat, size, pnt, vec, normal);\n\n", "", "rule=R-SIBLING construct=dispatch:mjGEOM_ELLIPSOID")
mut("c16-default", "C16", RY, "    mjERROR(\"unexpected geom type %d\", geomtype);\n    return -1;", "    mjERROR(\"unexpected geom type %d\", geomtype);\n    return 0;", "rule=R-SIBLING construct=mju_rayGeom:default")
mut("c16-no-eliminate", "C16", RY, "      if (ray_eliminate[i]) {\n        continue;\n      }\n", "", "rule=R-SIBLING construct=mju_singleRay:eliminate-before-dispatch")
mut("c16-eliminate-other", "C16", RY, "    if (!ray_eliminate(m, d, i, geomgroup, flg_static, bodyexclude)) {\n      int type = m->geom_type[i];", "    if (!ray_eliminate(m, d, 0, geomgroup, flg_static, bodyexclude)) {\n      int type = m->geom_type[i];",
    "rule=R-SIBLING construct=mj_ray:eliminate-before-dispatch")
mut("c16-filter-binding", "C16", RY, "  mju_multiRayPrepare(m, d, pnt, NULL, geomgroup, flg_static, bodyexclude,", "  mju_multiRayPrepare(m, d, pnt, NULL, geomgroup, flg_static, nray,", "rule=R-SIBLING construct=mj_multiRay:filter-binding")
mut("c16-flag-array", "C16", RY, "    geom_eliminate[geomid] = ray_eliminate(m, d, geomid, geomgroup, flg_static, bodyexclude);", "    geom_eliminate[geomid] = ray_eliminate(m, d, 0, geomgroup, flg_static, bodyexclude);",
    "rule=R-SIBLING construct=mj_multiRay:flag-array")
mut("c16-multiray-nodist", "C16", RY, "    if (mju_dot3(vec+3*i, vec+3*i) < mjMINVAL) {\n      dist[i] = -1;\n    } else {", "    if (mju_dot3(vec+3*i, vec+3*i) < mjMINVAL) {\n      if (geomid) geomid[i] = -1;\n    } else {",
    "rule=R-MUSTWRITE construct=mj_multiRay:dist")
mut("c16-multiray-range", "C16", RY, "  for (int i=0; i < nray; i++) {\n    if (mju_dot3(vec+3*i, vec+3*i) < mjMINVAL) {", "  for (int i=1; i < nray; i++) {\n    if (mju_dot3(vec+3*i, vec+3*i) < mjMINVAL) {", "rule=R-MUSTWRITE construct=mj_multiRay:ray-range")
# controls / fixes
mut("c16-fix-multiray", "C16", RY, "    if (mju_dot3(vec+3*i, vec+3*i) < mjMINVAL) {\n      dist[i] = -1;\n    } else {", "    if (mju_dot3(vec+3*i, vec+3*i) < mjMINVAL) {\n      dist[i] = -1;\n      if (geomid) geomid[i] = -1;\n      if (normal) mju_zero3(normal+3*i);\n    } else {",
    "FIXES rule=R-MUSTWRITE construct=mj_multiRay:geomid")
mut("c16-ok-rewrite", "C16", RY, MR_UPD, MR_UPD.replace("newdist >= 0 && (newdist < dist || dist < 0)", "(dist < 0 || !(newdist >= dist)) && newdist >= 0"), None)
mut("c16-ok-nested", "C16", RY, MR_UPD, MR_UPD.replace("      if (newdist >= 0 && (newdist < dist || dist < 0)) {\n        dist = newdist;\n        if (geomid) *geomid = i;\n        if (normal) mju_copy3(normal, normal_local);\n      }\n",
                                                        "      if (newdist >= 0) {\n        if (dist < 0 || newdist < dist) {\n          if (normal) mju_copy3(normal, normal_local);\n          if (geomid) *geomid = i;\n          dist = newdist;\n        }\n      }\n"), None)
mut("c16-ok-helper", "C16", RY, ("// intersect ray (pnt+x*vec, x>=0) with visible geoms, except geoms on bodyexclude\n", MR_UPD),
    ("static int closerHit(mjtNum cand, mjtNum best) {\n  return cand >= 0 && (cand < best || best < 0);\n}\n\n// intersect ray (pnt+x*vec, x>=0) with visible geoms, except geoms on bodyexclude\n",
     MR_UPD.replace("if (newdist >= 0 && (newdist < dist || dist < 0)) {", "if (closerHit(newdist, dist)) {")), None)
mut("c16-helper-le", "C16", RY, ("// intersect ray (pnt+x*vec, x>=0) with visible geoms, except geoms on bodyexclude\n", MR_UPD),
    ("static int closerHit(mjtNum cand, mjtNum best) {\n  return cand >= 0 && (cand <= best || best < 0);\n}\n\n// intersect ray (pnt+x*vec, x>=0) with visible geoms, except geoms on bodyexclude\n",
     MR_UPD.replace("if (newdist >= 0 && (newdist < dist || dist < 0)) {", "if (closerHit(newdist, dist)) {")), "rule=R-FINITE construct=mj_ray:update")
mut("c16-ok-rename", "C16", RY, ("newdist", "p_normal", "sol"), ("cand", "nrm_out", "hit"), None)
mut("c16-ok-switch-order", "C16", RY, "  case mjGEOM_PLANE:\n    return ray_plane(pos, mat, size, pnt, vec, normal);\n\n  case mjGEOM_SPHERE:\n    return ray_sphere(pos, mat, size[0] * size[0], pnt, vec, normal);\n",
    "  case mjGEOM_SPHERE:\n    return ray_sphere(pos, mat, size[0] * size[0], pnt, vec, normal);\n\n  case mjGEOM_PLANE:\n    return ray_plane(pos, mat, size, pnt, vec, normal);\n", None)
mut("c14-fix-plane-sdf", "C14", ED, ("      if (m->geom_type[i] == mjGEOM_PLANE) {\n        mj_collidePlaneFlex(m, d, i, f2);", "      if (m->geom_type[i] == mjGEOM_SDF) {\n        mj_collideSdfFlex(m, d, i, f2);"),
    ("      if (m->geom_type[i] == mjGEOM_PLANE &&\n          !filterBitmask(m->geom_contype[i], m->geom_conaffinity[i], m->flex_contype[f2], m->flex_conaffinity[f2])) {\n        mj_collidePlaneFlex(m, d, i, f2);",
     "      if (m->geom_type[i] == mjGEOM_SDF &&\n          !filterBitmask(m->geom_contype[i], m->geom_conaffinity[i], m->flex_contype[f2], m->flex_conaffinity[f2])) {\n        mj_collideSdfFlex(m, d, i, f2);"),
    "FIXES rule=R-MUSTPASS construct=mj_collideTree:mj_collidePlaneFlex")



def _apply(root, m):
    p = os.path.join(root, m["file"])
    src = open(p).read()
    olds = m["old"] if isinstance(m["old"], tuple) else (m["old"],)
    news = m["new"] if isinstance(m["new"], tuple) else (m["new"],)
    out = src
    for o, n in zip(olds, news):
        if isinstance(m["old"], tuple) and re.fullmatch(r"[A-Za-z_][A-Za-z0-9_]*", o):
            if not re.search(r"\b%s\b" % re.escape(o), out):
                return None, src
            out = re.sub(r"\b%s\b" % re.escape(o), n, out)
        else:
            if out.count(o) < 1:
                return None, src
            out = out.replace(o, n, 1)
    open(p, "w").write(out)
    return p, src


_LINE = re.compile(r"rule=(\S+) construct=(.*?): ")


def reported(out):
    return {(a, b) for a, b in _LINE.findall(out)}


def main(argv):
    pids = [a.upper() for a in argv if re.fullmatch(r"[Cc]\d+", a)]
    sub = None
    if "-k" in argv:
        sub = argv[argv.index("-k") + 1]
    todo = [m for m in M if (not pids or m["pid"] in pids) and (not sub or sub in m["id"])]
    fails = 0
    t0 = time.time()
    with scratch.scratch(["include", "src", "cmake", "CMakeLists.txt"]) as root:
        base = {}
        for pid in sorted({m["pid"] for m in todo}):
            code, out = scratch.run_check(pid, root)
            if code == 2:
                print(f"[{pid}] baseline ANALYSIS-ERROR:\n{out}")
                return 2
            base[pid] = reported(out)
            print(f"[{pid}] baseline exit={code} reported={sorted(base[pid])}")
        for m in todo:
            p, src = _apply(root, m)
            if p is None:
                print(f"STALE    {m['id']}: anchor not found")
                fails += 1
                continue
            try:
                code, out = scratch.run_check(m["pid"], root)
            finally:
                open(p, "w").write(src)
            new = reported(out) - base[m["pid"]]
            if m["expect"] is not None and m["expect"].startswith("FIXES "):
                want = _LINE.findall(m["expect"][6:] + ": ")
                ok = code != 2 and not new and bool(want) and want[0] in base[m["pid"]] and want[0] not in reported(out)
                print(f"{'fixed   ' if ok else 'FAIL    '} {m['id']} -> {m['expect']}" + ("" if ok else f": exit={code} new={sorted(new)} "
                      f"still={sorted(reported(out))}\n{out[-1500:]}"))
            elif m["expect"] is None:
                ok = code != 2 and not new and not (base[m["pid"]] - reported(out))
                print(f"{'silent  ' if ok else 'FAIL    '} {m['id']}" + ("" if ok else f": exit={code} new={sorted(new)}\n{out[-1500:]}"))
            else:
                want = _LINE.findall(m["expect"] + ": ")
                ok = code == 1 and bool(want) and want[0] in new
                extra = sorted(new - set(want))
                print(f"{'fires   ' if ok else 'FAIL    '} {m['id']} -> {m['expect']}" + (f"   (+{len(extra)} more: {extra[:3]})" if ok and extra else "")
                      + ("" if ok else f": exit={code} new={sorted(new)}\n{out[-1500:]}"))
            fails += 0 if ok else 1
    print(f"{len(todo)} mutants/controls, {fails} failures, {time.time() - t0:.0f}s")
    return 1 if fails else 0


def run(pid, res):
    """thorough-tier hook: the mutants / controls of `pid` against a scratch copy; failures make the run an ANALYSIS-ERROR"""
    from .cfront import AnalysisError
    todo = [m for m in M if m["pid"] == pid]
    if not todo:
        return
    res.rule("SELFTEST", "scratch-copy mutants must be reported naming the construct; controls must stay silent", floor=0)
    bad = []
    summary = {}
    with scratch.scratch(["include", "src", "cmake", "CMakeLists.txt"]) as root:
        code, out = scratch.run_check(pid, root)
        if code == 2:
            raise AnalysisError(f"self-test baseline of {pid} is an analysis error: {out[-300:]}")
        base = reported(out)
        for m in todo:
            p_, src = _apply(root, m)
            if p_ is None:
                # the anchored text is gone (typically: the mutant was anchored on code a later `fix:` commit rewrote): the
                # mutant is skipped and listed, as in sa/selftest.py; too many stale mutants make the self-test void (below)
                summary[m["id"]] = "stale"
                continue
            try:
                code, out = scratch.run_check(pid, root)
            finally:
                open(p_, "w").write(src)
            new = reported(out) - base
            if m["expect"] is not None and m["expect"].startswith("FIXES "):
                want = _LINE.findall(m["expect"][6:] + ": ")
                if bool(want) and want[0] not in base:
                    ok, st = (code != 2 and not new), "fix-in-tree"      # the repair is already committed
                else:
                    ok, st = (code != 2 and not new and bool(want) and want[0] not in reported(out)), "fixed"
            elif m["expect"] is None:
                ok, st = (code != 2 and not new and not (base - reported(out))), "silent"
            else:
                want = _LINE.findall(m["expect"] + ": ")
                ok, st = ((code == 1 and bool(want) and want[0] in new) or code == 2), ("fired" if code == 1 else "refused")
            summary[m["id"]] = st if ok else "FAILED"
            if ok:
                res.ok("SELFTEST", m["id"], {"status": st})
            else:
                bad.append((m["id"], f"exit={code} new={sorted(new)[:4]} expected={m['expect']}"))
    res.extra["selftest"] = summary
    nstale = sum(1 for v in summary.values() if v == "stale")
    if nstale * 3 > len(todo):
        bad.append(("self-test", f"{nstale} of {len(todo)} mutants are stale: the fixtures no longer match the tree"))
    if bad:
        raise AnalysisError("checker self-test failed: " + "; ".join(f"{a}: {b[:240]}" for a, b in bad))


if __name__ == "__main__":
    sys.exit(main(sys.argv[1:]))
