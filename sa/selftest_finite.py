"""Self-test of the C14 / C16 / C22 checkers: scratch-copy mutants that must be reported, controls that must stay silent.

    python3-vt -m sa.selftest_finite [C14|C16|C22 ...] [-k substring]

One scratch copy of the repository (outside /repo and /verif) is edited, checked and restored per mutant.  A mutant "fires"
when the check prints a `rule=<R> construct=<C>` line containing the expected text that the unchanged scratch copy does not
print; a control is "silent" when the set of reported (rule, construct) pairs equals the baseline's.  Exit 0 iff every mutant
fires and every control is silent.
"""
from __future__ import annotations

import os
import re
import sys
import time

from . import scratch

ED = "src/engine/engine_collision_driver.c"
SH = "src/engine/engine_sort.h"
RY = "src/engine/engine_ray.c"
UM = "src/engine/engine_util_misc.c"
SE = "src/engine/engine_sensor.c"
RG = "src/render/classic/render_gl3.c"

M = []


def mut(mid, pid, file, old, new, expect):
    M.append({"id": mid, "pid": pid, "file": file, "old": old, "new": new, "expect": expect})


# ------------------------------------------------------------------------------------------------ C14
mut("c14-flip-operand", "C14", ED, "return !(contype1 & conaffinity2) && !(contype2 & conaffinity1);",
    "return !(contype1 & conaffinity1) && !(contype2 & conaffinity1);", "rule=R-FINITE construct=filterCollisionPair:filterBitmask-site")
mut("c14-or-for-and", "C14", ED, "return !(contype1 & conaffinity2) && !(contype2 & conaffinity1);",
    "return !(contype1 & conaffinity2) || !(contype2 & conaffinity1);", "rule=R-FINITE construct=canCollide2:filterBitmask-site")
mut("c14-swap-site-args", "C14", ED, "    } else if (filterBitmask(m->geom_contype[g1], m->geom_conaffinity[g1],\n                             m->geom_contype[g2], m->geom_conaffinity[g2])) {",
    "    } else if (filterBitmask(m->geom_contype[g1], m->geom_conaffinity[g1],\n                             m->geom_conaffinity[g2], m->geom_contype[g2])) {",
    "rule=R-FINITE construct=filterCollisionPair:filterBitmask-site")
mut("c14-addpair-flip", "C14", ED, "      if (!(contype1 & conaffinity2) && !(contype2 & conaffinity1)) {\n        return;",
    "      if (!(contype1 & conaffinity2) && !(contype2 & conaffinity2)) {\n        return;", "rule=R-FINITE construct=add_pair:inline-bitmask")
mut("c14-addpair-and-lift", "C14", ED, "          contype1 |= m->geom_contype[i];", "          contype1 &= m->geom_contype[i];", "rule=R-FINITE construct=add_pair:or-lift:contype1")
mut("c14-cancollide-polarity", "C14", ED, "  return (!filterBitmask(contype1, conaffinity1, contype2, conaffinity2));",
    "  return (filterBitmask(contype1, conaffinity1, contype2, conaffinity2));", "rule=R-FINITE construct=mj_collision:canCollide2-polarity")
mut("c14-drop-exclude", "C14", ED, "      if (exadr < nexclude && m->exclude_signature[exadr] == signature) {\n        continue;\n      }\n", "",
    "rule=R-MUSTPASS construct=mj_collision:exclude-before:mj_collideTree")
mut("c14-exclude-no-skip", "C14", ED, "      if (exadr < nexclude && m->exclude_signature[exadr] == signature) {\n        continue;\n      }\n",
    "      if (exadr < nexclude && m->exclude_signature[exadr] == signature) {\n        ngeompair += 0;\n      }\n",
    "rule=R-MUSTPASS construct=mj_collision:exclude-before:pushGeomGeom#1")
mut("c14-drop-pair-filter", "C14", ED, "      if (filterCollisionPair(m, d, geomadr1, geomadr2, -1, merged, startadr, pairadr)) {\n        pushGeomGeom(m, d, geomadr1, geomadr2, -1);\n        ngeompair++;\n      }",
    "      {\n        pushGeomGeom(m, d, geomadr1, geomadr2, -1);\n        ngeompair++;\n      }", "rule=R-MUSTPASS construct=mj_collision:pushGeomGeom(-1)#1")
mut("c14-filter-other-pair", "C14", ED, "            if (filterCollisionPair(m, d, g1, g2, -1, merged, startadr, pairadr)) {\n              pushGeomGeom(m, d, g1, g2, -1);",
    "            if (filterCollisionPair(m, d, g1, geomadr2, -1, merged, startadr, pairadr)) {\n              pushGeomGeom(m, d, g1, g2, -1);",
    "rule=R-MUSTPASS construct=mj_collision:pushGeomGeom(-1)#2")
mut("c14-drop-contact-flag", "C14", ED, "  if (mjDISABLED(mjDSBL_CONSTRAINT) || mjDISABLED(mjDSBL_CONTACT) || nbodyflex < 2) {",
    "  if (mjDISABLED(mjDSBL_CONSTRAINT) || nbodyflex < 2) {", "rule=R-MUSTPASS construct=mj_collision:early-return:mjDSBL_CONTACT")
mut("c14-flag-after-broadphase", "C14", ED, "  // return if disabled\n  if (mjDISABLED(mjDSBL_CONSTRAINT) || mjDISABLED(mjDSBL_CONTACT) || nbodyflex < 2) {\n    TM_END1(mjTIMER_POS_COLLISION);\n    return;\n  }\n",
    "  int early = mj_broadphase(m, d, NULL, 0);\n  if (mjDISABLED(mjDSBL_CONSTRAINT) || mjDISABLED(mjDSBL_CONTACT) || nbodyflex < 2 || early < 0) {\n    TM_END1(mjTIMER_POS_COLLISION);\n    return;\n  }\n",
    "rule=R-MUSTPASS construct=mj_collision:early-return:mjDSBL_CONTACT")
mut("c14-explicit-bitmask", "C14", ED, "  if (ipair < 0) {\n    if (mjcb_contactfilter) {", "  {\n    if (mjcb_contactfilter) {", "rule=R-MUSTPASS construct=filterCollisionPair:explicit")
mut("c14-implicit-no-bitmask", "C14", ED, "  if (ipair < 0) {\n    if (mjcb_contactfilter) {", "  if (ipair < -1) {\n    if (mjcb_contactfilter) {", "rule=R-MUSTPASS construct=filterCollisionPair:implicit")
mut("c14-explicit-margin", "C14", ED, "    return mj_assignMargin(m, m->pair_margin[ipair]);", "    return mj_assignMargin(m, m->geom_margin[g1]);", "rule=R-MUSTPASS construct=getMargin:explicit-params")
mut("c14-explicit-geoms", "C14", ED, "  for (; pairadr < npair; pairadr++) {\n    g1 = m->pair_geom1[pairadr], g2 = m->pair_geom2[pairadr];",
    "  for (; pairadr < npair; pairadr++) {\n    g1 = m->pair_geom1[pairadr], g2 = m->pair_geom1[pairadr];", "rule=R-MUSTPASS construct=mj_collision:pushGeomGeom(explicit)#2")
mut("c14-midphase-leaf", "C14", ED, "            if (filterCollisionPair(m, d, nodeid1, nodeid2, -1, merged, startadr, pairadr)) {\n              int n1 = nodeid1, n2 = nodeid2;",
    "            if (merged >= 0) {\n              int n1 = nodeid1, n2 = nodeid2;", "rule=R-MUSTPASS construct=mj_collideTree:mj_narrowphase(&pair)")
mut("c14-flex-bitmask", "C14", ED, "          if (filterBitmask(m->geom_contype[g], m->geom_conaffinity[g],\n                            m->flex_contype[f], m->flex_conaffinity[f])) {\n            continue;\n          }\n", "",
    "rule=R-MUSTPASS construct=mj_collision:mj_collideGeomElem")
mut("c14-drop-bodyfilter", "C14", ED, "        if (filterBodyPair(weld1, parent_weld1, 0, dofnum1,\n                           weld2, parent_weld2, asleep2, dofnum2,\n                           dsbl_filterparent)) {\n          continue;\n        }\n", "",
    "rule=R-MUSTPASS construct=mj_broadphase:add_pair(b1, b2)")
mut("c14-bodyfilter-args", "C14", ED, "        if (filterBodyPair(weld1, parent_weld1, asleep1, dofnum1,\n                           weld2, parent_weld2, asleep2, dofnum2,",
    "        if (filterBodyPair(weld1, parent_weld1, asleep1, dofnum1,\n                           weld2, parent_weld1, asleep2, dofnum2,", "rule=R-FINITE construct=mj_broadphase:filterBodyPair-site2")
mut("c14-parent-unguarded", "C14", ED, "  if ((!dsbl_filterparent && weldbody1 != 0 && weldbody2 != 0) &&", "  if ((weldbody1 != 0 && weldbody2 != 0) &&", "rule=R-FINITE construct=filterBodyPair:parent-guard")
mut("c14-parent-dropped", "C14", ED, "      (weldbody1 == weldparent2 || weldbody2 == weldparent1)) {", "      (weldbody1 == weldparent2)) {", "rule=R-FINITE construct=filterBodyPair:parent-child")
mut("c14-same-weld", "C14", ED, "  if (weldbody1 == weldbody2) {\n    return 1;", "  if (weldbody1 == weldparent2) {\n    return 1;", "rule=R-FINITE construct=filterBodyPair:same-weld")
mut("c14-cmp-drop-side", "C14", ED, "  if (con1_obj2 > con2_obj2) return 1;\n", "", "rule=R-CMP construct=contactcompare:antisymmetry")
mut("c14-cmp-sap", "C14", ED, "  if (obj1->value < obj2->value) {\n    return -1;", "  if (obj1->value <= obj2->value) {\n    return -1;", "rule=R-CMP construct=SAPcmp:antisymmetry")
mut("c14-cmp-uint", "C14", ED, "  } else if (*i == *j) {\n    return 0;\n  } else {\n    return 1;\n  }\n}\n\n// define bfsort", "  } else if (*i == *j) {\n    return 0;\n  } else {\n    return -1;\n  }\n}\n\n// define bfsort",
    "rule=R-CMP construct=uintcmp:antisymmetry")
# controls
mut("c14-ok-demorgan", "C14", ED, "return !(contype1 & conaffinity2) && !(contype2 & conaffinity1);",
    "return !((contype1 & conaffinity2) || (conaffinity1 & contype2));", None)
mut("c14-ok-not-lt", "C14", ED, "  if (ipair < 0) {\n    if (mjcb_contactfilter) {", "  if (!(ipair >= 0)) {\n    if (mjcb_contactfilter) {", None)
mut("c14-ok-reorder", "C14", ED, "  // same weldbody check\n  if (weldbody1 == weldbody2) {\n    return 1;\n  }\n\n  // both dof-less: no forces can act, skip\n  if (dofnum1 == 0 && dofnum2 == 0) {\n    return 1;\n  }\n",
    "  // both dof-less: no forces can act, skip\n  if (!(dofnum1 != 0) && dofnum2 == 0) {\n    return 1;\n  }\n\n  // same weldbody check\n  if (weldbody1 == weldbody2) {\n    return 1;\n  }\n", None)
mut("c14-ok-rename", "C14", ED, ("con1_obj1", "con2_obj1", "weldbody1", "exadr"), ("first_a", "first_b", "wb_one", "excl_cursor"), None)
mut("c14-ok-helper", "C14", ED, ("// main collision function\nvoid mj_collision(",
                                 "    int exadr = 0;\n    if (nexclude) {\n      // advance exadr while exclude_signature < signature\n      while (exadr < nexclude && m->exclude_signature[exadr] < signature) {\n        exadr++;\n      }\n\n      // skip this bodyflex pair if its signature is found in exclude array\n      if (exadr < nexclude && m->exclude_signature[exadr] == signature) {\n        continue;\n      }\n    }\n"),
    ("static int isExcluded(const mjModel* m, unsigned int signature) {\n  int k = 0;\n  while (k < m->nexclude && m->exclude_signature[k] < signature) k++;\n  return k < m->nexclude && m->exclude_signature[k] == signature;\n}\n\n// main collision function\nvoid mj_collision(",
     "    if (nexclude && isExcluded(m, signature)) {\n      continue;\n    }\n"), None)
mut("c14-ok-drop-prefilter", "C14", ED, "    // apply bitmask filtering at the bodyflex level\n    if (!canCollide2(m, bf1, bf2)) {\n      continue;\n    }\n", "", None)

# ------------------------------------------------------------------------------------------------ C16 / C22: appended below


def _apply(root, m):
    p = os.path.join(root, m["file"])
    src = open(p).read()
    olds = m["old"] if isinstance(m["old"], tuple) else (m["old"],)
    news = m["new"] if isinstance(m["new"], tuple) else (m["new"],)
    out = src
    for o, n in zip(olds, news):
        if isinstance(m["old"], tuple) and re.fullmatch(r"[A-Za-z_][A-Za-z0-9_]*", o):
            if not re.search(r"\b%s\b" % re.escape(o), out):
                return None, src
            out = re.sub(r"\b%s\b" % re.escape(o), n, out)
        else:
            if out.count(o) < 1:
                return None, src
            out = out.replace(o, n, 1)
    open(p, "w").write(out)
    return p, src


_LINE = re.compile(r"rule=(\S+) construct=(.*?): ")


def reported(out):
    return {(a, b) for a, b in _LINE.findall(out)}


def main(argv):
    pids = [a.upper() for a in argv if re.fullmatch(r"[Cc]\d+", a)]
    sub = None
    if "-k" in argv:
        sub = argv[argv.index("-k") + 1]
    todo = [m for m in M if (not pids or m["pid"] in pids) and (not sub or sub in m["id"])]
    fails = 0
    t0 = time.time()
    with scratch.scratch(["include", "src", "cmake", "CMakeLists.txt"]) as root:
        base = {}
        for pid in sorted({m["pid"] for m in todo}):
            code, out = scratch.run_check(pid, root)
            if code == 2:
                print(f"[{pid}] baseline ANALYSIS-ERROR:\n{out}")
                return 2
            base[pid] = reported(out)
            print(f"[{pid}] baseline exit={code} reported={sorted(base[pid])}")
        for m in todo:
            p, src = _apply(root, m)
            if p is None:
                print(f"STALE    {m['id']}: anchor not found")
                fails += 1
                continue
            try:
                code, out = scratch.run_check(m["pid"], root)
            finally:
                open(p, "w").write(src)
            new = reported(out) - base[m["pid"]]
            if m["expect"] is None:
                ok = code != 2 and not new and not (base[m["pid"]] - reported(out))
                print(f"{'silent  ' if ok else 'FAIL    '} {m['id']}" + ("" if ok else f": exit={code} new={sorted(new)}\n{out[-1500:]}"))
            else:
                want = _LINE.findall(m["expect"] + ": ")
                ok = code == 1 and bool(want) and want[0] in new
                extra = sorted(new - set(want))
                print(f"{'fires   ' if ok else 'FAIL    '} {m['id']} -> {m['expect']}" + (f"   (+{len(extra)} more: {extra[:3]})" if ok and extra else "")
                      + ("" if ok else f": exit={code} new={sorted(new)}\n{out[-1500:]}"))
            fails += 0 if ok else 1
    print(f"{len(todo)} mutants/controls, {fails} failures, {time.time() - t0:.0f}s")
    return 1 if fails else 0


if __name__ == "__main__":
    sys.exit(main(sys.argv[1:]))
