"""R-INPUT-BOUND: stores whose index is driven by input text are bounded (C37, xml layer).

Census (by pattern, nothing is named): every loop of src/xml whose exits depend on input text -- a stream read
(`strm >> x`, eof(), `while (strm)`), the size / iteration of a dynamic container, a C-string scan, the iteration over
XML sibling elements -- and that contains
  * a store `dst[idx] = ..` / `*(dst + idx) = ..` / `dst[idx]++` whose index mentions a counter that is advanced in the
    loop and carried from one iteration to the next, or
  * a call of a callable parameter with such a counter as argument (the store happens in the caller's callback);
plus the input-sized bulk copies (`std::copy(c.begin(), c.end(), dst)`, `memcpy(dst, c.data(), c.size())`) into storage
that does not grow.

Each such store must be bounded on every path by one of
  (a) a guard relating the index to a loop-invariant size expression K (`idx < K`, `idx >= K -> throw`), found by a
      forward data-flow over the loop body (facts = linear relations, killed by assignments; early exits nested);
      for a destination of fixed extent K is compared with the extent, for a pointer parameter the callers' buffers
      are compared with the size argument;
  (b) the uniqueness argument: the counter starts at 0, is advanced once per storing iteration, and on every storing
      iteration the token was tested absent from a set-like container that only grows, is inserted into it in the same
      iteration, and is a member of a finite table (result of a finite-table lookup tested against its not-found value);
      then at most `table size` stores happen; the callers' buffers are compared with the table-size argument;
  (c) self-growing destinations (push_back, +=) are not stores in this sense.
Verdicts: a recognised store without any bounding argument, an argument with a missing leg, or an extent smaller than
the bound is a VIOLATION; an argument in a shape the analysis cannot interpret, or a call site whose buffer cannot be
related to the size argument, is an AnalysisError.
"""
from __future__ import annotations

import re

from . import cir, norm, paths
from .cfront import AnalysisError

LOOPS = ("ForStmt", "WhileStmt", "DoStmt", "CXXForRangeStmt")
STREAM_T = re.compile(r"basic_i?stringstream|basic_istream|basic_ios\b|\bi?stringstream\b|\bistream\b")
CONT_T = re.compile(r"basic_string|std::string\b|\bvector<")
SET_T = re.compile(r"\b(unordered_)?(multi)?(set|map)<")
ELEM_T = re.compile(r"XML(Element|Node)\b")
NONMUT = {"size", "length", "empty", "begin", "end", "cbegin", "cend", "data", "c_str", "has_value", "value", "at",
          "front", "back", "count", "find", "contains", "operator[]", "operator->", "operator*", "eof", "fail", "good",
          "bad", "str", "capacity", "operator bool", "rdstate", "peek", "compare", "substr"}
GROW = {"push_back", "emplace_back", "append", "operator+=", "insert", "emplace", "push_front", "emplace_front"}
SHRINK = {"resize", "clear", "erase", "pop_back", "assign", "swap", "shrink_to_fit", "operator=", "extract", "merge"}
SIZE_M = {"size", "length"}
BULK = {"copy": ("range", 0, 1, 2), "memcpy": ("bytes", 1, 2, 0), "memmove": ("bytes", 1, 2, 0),
        "copy_n": ("count", 0, 1, 2)}      # kind, source position(s) / size position, destination position


def _ty(n):
    return f"{n.get('dt') or ''} | {n.get('t') or ''}" if n else ""


def _ref(n):
    n = cir.strip(n)
    if n is not None and n.get("k") == "DeclRefExpr":
        return n.get("ref") or {}
    return None


def _vid(n):
    r = _ref(n)
    if r and r.get("k") in ("VarDecl", "ParmVarDecl", "BindingDecl"):
        return r.get("id")
    return None


def _var_ids(n):
    out = set()
    for x in cir.walk(n):
        if x.get("k") == "DeclRefExpr":
            r = x.get("ref") or {}
            if r.get("k") in ("VarDecl", "ParmVarDecl"):
                out.add(r.get("id"))
    return out


def _mcall(n):
    """(method, object expression, args) of a member call (also in dependent code), else None."""
    n = cir.strip(n)
    if n is None or n.get("k") not in ("CXXMemberCallExpr", "CallExpr", "CXXOperatorCallExpr"):
        return None
    c = cir.kids(n)
    if not c:
        return None
    if n.get("k") == "CXXOperatorCallExpr":
        nm = cir.callee(n)
        if nm and len(c) >= 2:
            return nm, c[1], list(c[2:])
        return None
    f = cir.strip(c[0])
    if f is None:
        return None
    if f.get("k") == "MemberExpr":
        return f.get("n"), (cir.kids(f)[0] if cir.kids(f) else None), list(c[1:])
    if f.get("k") == "CXXDependentScopeMemberExpr":
        return f.get("member"), (cir.kids(f)[0] if cir.kids(f) else None), list(c[1:])
    return None


def _deep(n):
    """The expression a value is taken from: casts, copies (copy / move construction), std::move, .c_str() / .data()
    and optional dereferences dropped."""
    while True:
        n = cir.strip(n)
        if n is None:
            return None
        k = n.get("k")
        if k in ("CXXConstructExpr", "CXXTemporaryObjectExpr"):
            c = [x for x in cir.kids(n) if x is not None and x.get("k") != "CXXDefaultArgExpr"]
            if len(c) == 1:
                n = c[0]
                continue
            return n
        if k == "CallExpr" and cir.callee(n) in ("move", "forward") and len(cir.args(n)) == 1:
            n = cir.args(n)[0]
            continue
        m = _mcall(n)
        if m and m[0] in ("c_str", "data", "value", "operator*", "operator->") and m[1] is not None and not m[2] \
                and n.get("k") != "CXXOperatorCallExpr":
            n = m[1]
            continue
        return n


def _is_const_obj(obj):
    """Is the implicit object argument of a member call const-qualified (clang inserts a NoOp cast)?"""
    n = obj
    while n is not None and n.get("k") in ("ImplicitCastExpr", "ParenExpr"):
        if re.match(r"\s*const\b", n.get("t") or ""):
            return True
        c = cir.kids(n)
        n = c[0] if c else None
    return False


def _bare_var(a):
    """Variable passed as a modifiable lvalue (no lvalue-to-rvalue / const conversion on the way)."""
    n = a
    while n is not None and n.get("k") in ("ParenExpr", "ImplicitCastExpr"):
        if n.get("k") == "ImplicitCastExpr":
            if n.get("ck") == "LValueToRValue":
                return None
            if re.match(r"\s*const\b", n.get("t") or ""):
                return None
        c = cir.kids(n)
        n = c[0] if c else None
    if n is not None and n.get("k") == "UnaryOperator" and n.get("op") == "&":
        return cir_base_id(cir.kids(n)[0])
    if n is not None and n.get("k") == "DeclRefExpr":
        if re.match(r"\s*const\b", n.get("t") or "") and "*" not in (n.get("t") or ""):
            return None         # a const object cannot be modified through this use
        return _vid(n)
    return None


def cir_base_id(n):
    """id of the variable at the root of an lvalue chain."""
    n = cir.strip(n)
    while n is not None:
        k = n.get("k")
        if k == "DeclRefExpr":
            return _vid(n)
        if k in ("MemberExpr", "ArraySubscriptExpr", "CXXDependentScopeMemberExpr"):
            c = cir.kids(n)
            n = cir.strip(c[0]) if c else None
            continue
        if k == "UnaryOperator" and n.get("op") in ("*", "&"):
            n = cir.strip(cir.kids(n)[0])
            continue
        if k == "CXXOperatorCallExpr" and cir.callee(n) in ("operator[]", "operator*", "operator->"):
            n = cir.strip(cir.kids(n)[1])
            continue
        m = _mcall(n)
        if m and m[0] in ("at", "front", "back", "value", "data") and m[1] is not None:
            n = cir.strip(m[1])
            continue
        return None
    return None


def _assign_target(x):
    """LHS expression of an assignment-like node, else None."""
    k = x.get("k")
    if (k == "BinaryOperator" and x.get("op") == "=") or k == "CompoundAssignOperator" or \
            (k == "UnaryOperator" and x.get("op") in ("++", "--")):
        return cir.kids(x)[0]
    if k == "CXXOperatorCallExpr" and cir.callee(x) in ("operator=", "operator+=", "operator-=", "operator++", "operator--"):
        return cir.kids(x)[1]
    return None


def writes(n, into_lambdas=True):
    """ids of the variables a subtree may modify (assignment, ++, passed as a modifiable lvalue, non-const member call,
    anything a lambda inside mentions)."""
    out = set()
    for x in cir.walk(n):
        k = x.get("k")
        t = _assign_target(x)
        if t is not None:
            b = cir_base_id(t)
            if b:
                out.add(b)
        if k == "LambdaExpr" and into_lambdas:
            out |= _var_ids(x)
        if k == "VarDecl" and x.get("id"):
            out.add(x["id"])
        if cir.is_call(x) or k in ("CXXConstructExpr", "CXXTemporaryObjectExpr"):
            m = _mcall(x) if cir.is_call(x) else None
            argl = list(cir.kids(x)[1:]) if cir.is_call(x) else list(cir.kids(x))
            if m and x.get("k") != "CXXOperatorCallExpr":
                name, obj, argl = m
                if obj is not None and name not in NONMUT and not _is_const_obj(obj):
                    b = cir_base_id(obj)
                    if b:
                        out.add(b)
            elif x.get("k") == "CXXOperatorCallExpr":
                argl = list(cir.kids(x)[1:])
                nm = cir.callee(x) or ""
                if nm in ("operator[]", "operator*", "operator->", "operator==", "operator!=", "operator<", "operator()"):
                    argl = argl[1:] if nm != "operator()" else argl
            for a in argl:
                b = _bare_var(a)
                if b:
                    out.add(b)
    return out


def advanced(n):
    """ids of variables advanced (++, --, += , -=, v = f(v)) in a subtree."""
    out = set()
    for x in cir.walk(n):
        k = x.get("k")
        if k == "LambdaExpr":
            continue
        if (k == "UnaryOperator" and x.get("op") in ("++", "--")) or \
                (k == "CompoundAssignOperator" and x.get("op") in ("+=", "-=")):
            v = _vid(cir.kids(x)[0])
            if v:
                out.add(v)
        elif k == "BinaryOperator" and x.get("op") == "=":
            v = _vid(cir.kids(x)[0])
            if v and v in _var_ids(cir.kids(x)[1]):
                out.add(v)
    return out


# ---------------------------------------------------------------------------------------------------------------
# linear forms with flow-sensitive equalities


def fadd(a, b, k=1):
    out = dict(a)
    for t, c in b.items():
        out[t] = out.get(t, 0) + k * c
        if out[t] == 0:
            del out[t]
    return out


def ffmt(f):
    if not f:
        return "0"
    parts = []
    for t, c in sorted(f.items(), key=lambda x: (x[0] == "1", x[0])):
        if t == "1":
            parts.append(str(c))
        elif c == 1:
            parts.append(t)
        elif c == -1:
            parts.append("-" + t)
        else:
            parts.append(f"{c}*{t}")
    return " + ".join(parts).replace("+ -", "- ")


class Lin:
    """Builds linear forms; remembers which variables each atom depends on."""

    def __init__(self, consts=None):
        self.deps = {}            # atom text -> frozenset(var ids)
        self.consts = consts or (lambda ref: None)

    def atom(self, text, ids):
        self.deps[text] = frozenset(self.deps.get(text, frozenset()) | set(ids))
        return {text: 1}

    def form(self, n, eq=None):
        eq = eq or {}
        n = cir.strip(n)
        if n is None:
            return {}
        k = n.get("k")
        if k == "IntegerLiteral":
            try:
                v = int(str(n.get("v")), 0)
            except ValueError:
                return self.atom(cir.text(n), ())
            return {"1": v} if v else {}
        if k == "DeclRefExpr":
            r = n.get("ref") or {}
            vid = r.get("id")
            if vid in eq:
                return dict(eq[vid][0])
            cv = self.consts(r)
            if cv is not None:
                return {"1": cv} if cv else {}
            return self.atom(r.get("n") or "?", (vid,) if r.get("k") in ("VarDecl", "ParmVarDecl") else ())
        if k == "UnaryOperator" and n.get("op") in ("-", "+"):
            f = self.form(cir.kids(n)[0], eq)
            return f if n.get("op") == "+" else {t: -c for t, c in f.items()}
        if k == "UnaryOperator" and n.get("op") in ("++", "--"):
            f = self.form(cir.kids(n)[0], eq)
            if n.get("isPostfix"):
                return f
            return fadd(f, {"1": 1}, 1 if n.get("op") == "++" else -1)
        if k == "BinaryOperator" and n.get("op") == "=":
            return self.form(cir.kids(n)[0], eq)      # the value of `(v = e)` is v after the assignment
        if k == "BinaryOperator" and n.get("op") in ("+", "-"):
            return fadd(self.form(cir.kids(n)[0], eq), self.form(cir.kids(n)[1], eq), 1 if n.get("op") == "+" else -1)
        if k == "BinaryOperator" and n.get("op") == "*":
            a = self.form(cir.kids(n)[0], eq)
            b = self.form(cir.kids(n)[1], eq)
            for x, y in ((a, b), (b, a)):
                if set(x) <= {"1"}:
                    c = x.get("1", 0)
                    return {t: c * v for t, v in y.items() if c * v}
        m = _mcall(n)
        if m and m[0] in SIZE_M and not m[2] and n.get("k") != "CXXOperatorCallExpr":
            obj = container_of(m[1])
            return self.atom(f"size({cir.text(obj)})", _var_ids(obj))
        return self.atom(cir.text(n), _var_ids(n))

    def variant(self, f, modified):
        """atoms of f that depend on a variable of `modified`"""
        return [t for t in f if t != "1" and self.deps.get(t, frozenset()) & modified]


def container_of(obj):
    """The container an expression denotes, through optional dereference (`o->`, `*o`, `o.value()`)."""
    return _deep(obj)


def relations(lin, node, pol, eq):
    """[(form, strict)]: `form > 0` / `form >= 0` holds when the comparison has truth value pol."""
    n = cir.strip(node)
    if n is None:
        return []
    if n.get("k") == "CXXRewrittenBinaryOperator" and cir.kids(n):
        n = cir.strip(cir.kids(n)[0])
    if n is None or n.get("k") != "BinaryOperator" or n.get("op") not in ("<", "<=", ">", ">=", "=="):
        return []
    a = lin.form(cir.kids(n)[0], eq)
    b = lin.form(cir.kids(n)[1], eq)
    op = n.get("op")
    if op == "==":
        return [(fadd(a, b, -1), False), (fadd(b, a, -1), False)] if pol else []
    if not pol:
        op = {"<": ">=", "<=": ">", ">": "<=", ">=": "<"}[op]
    if op in (">", ">="):
        return [(fadd(a, b, -1), op == ">")]
    return [(fadd(b, a, -1), op == "<")]


# ---------------------------------------------------------------------------------------------------------------
# per-iteration abstract state


class St:
    """Facts that hold at a program point of one loop iteration.
    rel     [(form, strict, premise)]   form > 0 / >= 0; premise: None or (form, strict) over loop-invariant atoms
    eq      {var id: (form, deps)}      integer locals with a known linear value
    bdef    {var id: (cond node, deps)} boolean locals standing for a condition
    fresh   {(set id, token key)}       the token was tested absent from the set in this iteration
    ins     {(set id, token key)}       the token was inserted into the set in this iteration
    pending {(set id, token key)}       an advance relied on freshness; the insertion is still owed
    look    {var id: Lookup}            the variable holds the result of a finite-table lookup
    member  {token key: (size form, text)}  the token is one of <= size table entries
    adv     {var id: n}                 advances of the counter so far in this iteration (2 = many / irregular)
    """
    __slots__ = ("rel", "eq", "bdef", "fresh", "ins", "pending", "look", "member", "adv")

    def __init__(self):
        self.rel, self.eq, self.bdef = [], {}, {}
        self.fresh, self.ins, self.pending = set(), set(), set()
        self.look, self.member, self.adv = {}, {}, {}

    def copy(self):
        s = St()
        s.rel, s.eq, s.bdef = list(self.rel), dict(self.eq), dict(self.bdef)
        s.fresh, s.ins, s.pending = set(self.fresh), set(self.ins), set(self.pending)
        s.look, s.member, s.adv = dict(self.look), dict(self.member), dict(self.adv)
        return s


def join(a, b):
    if a is None:
        return b
    if b is None:
        return a
    s = St()
    kb = [(_fkey(f), st, _pkey(p)) for f, st, p in b.rel]
    s.rel = [r for r in a.rel if (_fkey(r[0]), r[1], _pkey(r[2])) in kb]
    s.eq = {v: e for v, e in a.eq.items() if v in b.eq and b.eq[v][0] == e[0]}
    s.bdef = {v: e for v, e in a.bdef.items() if v in b.bdef and b.bdef[v][0] is e[0]}
    s.fresh = a.fresh & b.fresh
    s.ins = a.ins & b.ins
    s.pending = a.pending | b.pending
    s.look = {v: e for v, e in a.look.items() if v in b.look and b.look[v] == e}
    s.member = {t: e for t, e in a.member.items() if t in b.member and b.member[t] == e}
    s.adv = {v: max(a.adv.get(v, 0), b.adv.get(v, 0)) for v in set(a.adv) | set(b.adv)}
    return s


def _fkey(f):
    return tuple(sorted(f.items()))


def _pkey(p):
    return None if p is None else (_fkey(p[0]), p[1])


def tokkey(expr):
    e = _deep(expr)
    return (cir.text(e), frozenset(_var_ids(e)))


class Lookup:
    __slots__ = ("tok", "size", "size_text", "nf", "call")

    def __init__(self, tok, size, size_text, nf, call):
        self.tok, self.size, self.size_text, self.nf, self.call = tok, size, size_text, nf, call

    def __eq__(self, o):
        return isinstance(o, Lookup) and (self.tok, _fkey(self.size), self.nf) == (o.tok, _fkey(o.size), o.nf)

    def __hash__(self):
        return hash((self.tok, _fkey(self.size), self.nf))


def loop_parts(L):
    """(init statements, condition, increment, body, condition-at-end?)"""
    k = L["k"]
    c = list(cir.kids(L))
    if k == "WhileStmt":
        return c[:-2], c[-2], None, c[-1], False
    if k == "DoStmt":
        return [], c[-1], None, c[0], True
    if k == "ForStmt":
        c = c + [None] * 5
        return [x for x in (c[0], c[1]) if x is not None], c[2], c[3], c[4], False
    return [x for x in c[:4] if x is not None] + [x for x in c[6:7] if x is not None], None, None, c[-1], False


def _equality(n):
    """(a, b, is_eq) of an equality test in any of its AST forms."""
    n = cir.strip(n)
    if n is None:
        return None
    k = n.get("k")
    if k == "CXXRewrittenBinaryOperator" and cir.kids(n):
        r = _equality(cir.kids(n)[0])
        return r
    if k == "UnaryOperator" and n.get("op") == "!":
        r = _equality(cir.kids(n)[0])
        return (r[0], r[1], not r[2]) if r else None
    if k == "BinaryOperator" and n.get("op") in ("==", "!="):
        a, b = cir.kids(n)
        return a, b, n.get("op") == "=="
    if k == "CXXOperatorCallExpr" and cir.callee(n) in ("operator==", "operator!="):
        c = cir.kids(n)
        if len(c) == 3:
            return c[1], c[2], cir.callee(n) == "operator=="
    return None


class Event:
    __slots__ = ("kind", "node", "dest", "idx", "form", "loops", "st", "var", "step", "argpos", "amount", "forinits")

    def __init__(self, **kw):
        for s in self.__slots__:
            setattr(self, s, kw.get(s))


class Engine:
    """One forward pass over a function body (see module docstring)."""

    def __init__(self, fn, lookups, consts=None):
        self.fn = fn
        self.lin = Lin(consts)
        self.lookups = lookups
        self.events = []
        self.returns = []         # (ReturnStmt, St, enclosing loops)
        self.iter_ends = {}       # id(loop) -> [St]
        self.loop_entry = {}      # id(loop) -> St before the loop
        self.shrunk = set()
        self.nest = []            # enclosing ('loop' | 'switch', node)
        self.forinits = []        # ids initialised by the for-init of enclosing loops
        self.errvars = paths.error_msg_vars(fn)
        self.fn_writes = writes(cir.body(fn)) if cir.body(fn) is not None else set()

    # -- facts
    def kill(self, st, ids):
        ids = set(i for i in ids if i)
        if not ids:
            return
        dep = self.lin.deps

        def hit(f):
            return any(t != "1" and dep.get(t, frozenset()) & ids for t in f)
        st.rel = [r for r in st.rel if not hit(r[0]) and not (r[2] is not None and hit(r[2][0]))]
        st.eq = {v: e for v, e in st.eq.items() if v not in ids and not (e[1] & ids)}
        st.bdef = {v: e for v, e in st.bdef.items() if v not in ids and not (e[1] & ids)}
        st.fresh = {(s, t) for s, t in st.fresh if not (t[1] & ids)}
        st.ins = {(s, t) for s, t in st.ins if not (t[1] & ids)}
        st.look = {v: l for v, l in st.look.items() if v not in ids and not (l.tok[1] & ids) and not hit(l.size)}
        st.member = {t: e for t, e in st.member.items() if not (t[1] & ids) and not hit(e[0])}

    def kill_heap(self, st):
        st.rel = [r for r in st.rel if not any("->" in t for t in r[0])]

    def setvar(self, obj):
        n = cir.strip(obj)
        if n is not None and n.get("k") == "DeclRefExpr" and SET_T.search(_ty(n)):
            return _vid(n)
        return None

    def lookup_of(self, rhs, st):
        n = cir.strip(rhs)
        if n is None or not cir.is_call(n):
            return None
        s = self.lookups(n)
        if not s:
            return None
        a = cir.args(n)
        if max(s["key"], s["size"]) >= len(a):
            return None
        return Lookup(tokkey(a[s["key"]]), self.lin.form(a[s["size"]], st.eq), cir.text(a[s["size"]]), s["nf"], n)

    # -- conditions
    def assume(self, cond, pol, st):
        for node, p in norm.split_cond(cond, pol):
            self.atom(node, p, st)

    def set_test(self, n):
        n = cir.strip(n)
        if n is None:
            return None
        m = _mcall(n)
        if m and n.get("k") != "CXXOperatorCallExpr":
            s = self.setvar(m[1])
            if s and m[0] in ("count", "contains") and len(m[2]) == 1:
                return s, tokkey(m[2][0]), "present"
        if n.get("k") == "MemberExpr" and n.get("n") == "second" and cir.kids(n):
            m2 = _mcall(cir.kids(n)[0])
            if m2 and m2[0] in ("insert", "emplace") and self.setvar(m2[1]) and len(m2[2]) == 1:
                return self.setvar(m2[1]), tokkey(m2[2][0]), "inserted"
        e = _equality(n)
        if e:
            for x, y in ((e[0], e[1]), (e[1], e[0])):
                mx, my = _mcall(x), _mcall(y)
                if mx and my and mx[0] == "find" and my[0] in ("end", "cend") and len(mx[2]) == 1 and \
                        self.setvar(mx[1]) and self.setvar(mx[1]) == self.setvar(my[1]):
                    return self.setvar(mx[1]), tokkey(mx[2][0]), "absent" if e[2] else "present"
        if n.get("k") == "BinaryOperator" and n.get("op") in ("<", "<=", ">", ">=", "==", "!="):
            a, b = (cir.strip(x) for x in cir.kids(n))
            for x, y, flip in ((a, b, False), (b, a, True)):
                t = self.set_test(x) if (_mcall(x) and _mcall(x)[0] in ("count",)) else None
                if t and y is not None and y.get("k") == "IntegerLiteral":
                    c = int(str(y.get("v")), 0)
                    op = n.get("op")
                    if flip:
                        op = {"<": ">", "<=": ">=", ">": "<", ">=": "<=", "==": "==", "!=": "!="}[op]
                    ev = {"<": lambda v: v < c, "<=": lambda v: v <= c, ">": lambda v: v > c, ">=": lambda v: v >= c,
                          "==": lambda v: v == c, "!=": lambda v: v != c}[op]
                    if ev(0) and not ev(1):
                        return t[0], t[1], "absent"
                    if ev(1) and not ev(0):
                        return t[0], t[1], "present"
        return None

    def atom(self, node, p, st):
        n = cir.strip(node)
        if n is None:
            return
        k = n.get("k")
        if k == "DeclRefExpr" and _vid(n) in st.bdef:
            self.assume(st.bdef[_vid(n)][0], p, st)
            return
        if k == "BinaryOperator" and ((n.get("op") == "||" and p) or (n.get("op") == "&&" and not p)):
            a, b = cir.kids(n)
            alts = [norm.split_cond(a, p), norm.split_cond(b, p)]
            for i in (0, 1):
                prem, concl = alts[i], alts[1 - i]
                if len(prem) != 1:
                    continue
                neg = relations(self.lin, prem[0][0], not prem[0][1], st.eq)
                if len(neg) != 1 or self.lin.variant(neg[0][0], self.fn_writes):
                    continue
                for c, q in concl:
                    for f, s in relations(self.lin, c, q, st.eq):
                        st.rel.append((f, s, neg[0]))
            return
        t = self.set_test(n)
        if t:
            s, tok, kind = t
            if kind == "inserted":
                if p:
                    st.fresh.add((s, tok))
                    st.ins.add((s, tok))
            elif (kind == "absent") == p:
                st.fresh.add((s, tok))
            return
        self.nf_excluded(n, p, st)
        for f, s in relations(self.lin, n, p, st.eq):
            st.rel.append((f, s, None))

    def nf_excluded(self, n, p, st):
        for v, lk in list(st.look.items()):
            if v not in _var_ids(n):
                continue
            name = None
            for x in cir.walk(n):
                if x.get("k") == "DeclRefExpr" and (x.get("ref") or {}).get("id") == v:
                    name = (x.get("ref") or {}).get("n")
            excluded = False
            for f, strict in relations(self.lin, n, p, st.eq):
                if name in f:
                    g = fadd({t: c for t, c in f.items() if t != name}, {"1": f[name] * lk.nf})
                    if set(g) <= {"1"}:
                        val = g.get("1", 0)
                        if not (val > 0 if strict else val >= 0):
                            excluded = True
            e = _equality(n)
            if e and ((e[2] and not p) or (not e[2] and p)):
                # `v == c` false / `v != c` true: excluded when c is the not-found value
                for x, y in ((e[0], e[1]), (e[1], e[0])):
                    if _vid(x) == v or (cir.strip(x) is not None and cir.strip(x).get("k") == "BinaryOperator"
                                        and cir.strip(x).get("op") == "=" and _vid(cir.kids(cir.strip(x))[0]) == v):
                        fy = self.lin.form(y, st.eq)
                        if set(fy) <= {"1"} and fy.get("1", 0) == lk.nf:
                            excluded = True
            if excluded:
                st.member[lk.tok] = (lk.size, lk.size_text)

    # -- expressions
    def find_stores(self, n):
        out = []
        stack = [n]
        while stack:
            x = stack.pop()
            if x is None or x.get("k") == "LambdaExpr":
                continue
            stack.extend(reversed(cir.kids(x)))
            t = _assign_target(x)
            lhs = cir.strip(t) if t is not None else None
            if lhs is not None:
                b = idx = None
                if lhs.get("k") == "ArraySubscriptExpr":
                    b, idx = cir.kids(lhs)
                elif lhs.get("k") == "CXXOperatorCallExpr" and cir.callee(lhs) == "operator[]" and len(cir.kids(lhs)) == 3:
                    b, idx = cir.kids(lhs)[1], cir.kids(lhs)[2]
                    if SET_T.search(_ty(cir.strip(b))):
                        b = None
                elif lhs.get("k") == "UnaryOperator" and lhs.get("op") == "*":
                    e = cir.strip(cir.kids(lhs)[0])
                    if e is not None and e.get("k") == "BinaryOperator" and e.get("op") == "+":
                        b, idx = cir.kids(e)
                    elif e is not None and e.get("k") == "UnaryOperator" and e.get("op") in ("++", "--"):
                        b = idx = e
                    elif e is not None and e.get("k") == "DeclRefExpr" and "*" in (e.get("t") or ""):
                        b = idx = e
                if b is not None:
                    out.append(Event(kind="store", node=x, dest=cir.strip(b), idx=idx))
            if cir.is_call(x):
                c = cir.kids(x)
                f = cir.strip(c[0]) if c else None
                tgt, argl = None, []
                if x.get("k") == "CXXOperatorCallExpr" and cir.callee(x) == "operator()" and len(c) >= 2:
                    o = cir.strip(c[1])
                    if o is not None and o.get("k") == "DeclRefExpr" and (o.get("ref") or {}).get("k") == "ParmVarDecl":
                        tgt, argl = o, list(c[2:])
                elif f is not None and f.get("k") == "DeclRefExpr" and (f.get("ref") or {}).get("k") == "ParmVarDecl":
                    tgt, argl = f, list(c[1:])
                if tgt is not None:
                    for i, a in enumerate(argl):
                        out.append(Event(kind="callback", node=x, dest=tgt, idx=a, argpos=i))
                name = cir.callee(x)
                if name in BULK and not _mcall(x):
                    a = cir.args(x)
                    kind, p0, p1, pd = BULK[name]
                    if len(a) >= 3:
                        out.append(Event(kind="bulk", node=x, dest=cir.strip(a[pd]), idx=None, amount=(kind, a[p0], a[p1])))
        return out

    def expr(self, n, st):
        """One full expression: record the stores with the state before its side effects, then apply the effects."""
        if n is None:
            return
        for ev in self.find_stores(n):
            ev.st = st.copy()
            ev.loops = tuple(x for kind, x in self.nest if kind == "loop")
            ev.forinits = tuple(frozenset(s) for s in self.forinits)
            if ev.kind in ("store", "callback"):
                ev.form = self.lin.form(ev.idx, st.eq)
            self.events.append(ev)
        self.effects(n, st, True)

    def effects(self, n, st, positive):
        if n is None:
            return
        k = n.get("k")
        if k == "LambdaExpr":
            self.kill(st, _var_ids(n))
            return
        if k == "BinaryOperator" and n.get("op") in ("&&", "||"):
            self.effects(cir.kids(n)[0], st, positive)
            self.effects(cir.kids(n)[1], st, False)
            return
        if k == "ConditionalOperator":
            c = cir.kids(n)
            self.effects(c[0], st, positive)
            self.effects(c[1], st, False)
            self.effects(c[2], st, False)
            return
        t = _assign_target(n)
        if t is not None and k != "CXXOperatorCallExpr":
            rhs = cir.kids(n)[1] if len(cir.kids(n)) > 1 else None
            self.effects(rhs, st, positive)
            self.effects(t, st, positive)
            v = _vid(t)
            if v is None:
                self.kill(st, {cir_base_id(t)})
                return
            step = None
            if k == "UnaryOperator":
                step = 1 if n.get("op") == "++" else -1
            elif k == "CompoundAssignOperator" and n.get("op") in ("+=", "-="):
                f = self.lin.form(rhs, st.eq)
                step = (f.get("1", 0) * (1 if n.get("op") == "+=" else -1)) if set(f) <= {"1"} else "?"
            elif k == "CompoundAssignOperator":
                step = "?"
            elif v in _var_ids(rhs):
                name = (_ref(t) or {}).get("n")
                f = fadd(self.lin.form(rhs, {}), {name: 1}, -1)
                step = f.get("1", 0) if set(f) <= {"1"} else "?"
            if step is not None:
                old = st.eq.get(v)
                self.events.append(Event(kind="advance", node=n, var=v, step=step, st=st.copy(),
                                         loops=tuple(x for kind, x in self.nest if kind == "loop")))
                st.pending |= {pr for pr in st.fresh if pr not in st.ins}
                self.kill(st, {v})
                if old is not None and step != "?" and positive:
                    st.eq[v] = (fadd(old[0], {"1": step}), old[1])
                st.adv[v] = st.adv.get(v, 0) + 1 if step == 1 and positive else 2
                return
            self.define(v, t, rhs, st, positive)
            return
        if cir.is_call(n) or k in ("CXXConstructExpr", "CXXTemporaryObjectExpr"):
            for c in cir.kids(n):
                self.effects(c, st, positive)
            self.call_effects(n, st, positive)
            return
        for c in cir.kids(n):
            self.effects(c, st, positive)

    def define(self, v, target, rhs, st, positive):
        """`v = rhs` (also a declaration with an initialiser)."""
        lk = self.lookup_of(rhs, st) if positive and rhs is not None else None
        f = deps = None
        ty = ((target.get("t") if target else "") or "").replace("const ", "").strip()
        if positive and rhs is not None and lk is None and re.fullmatch(
                r"(unsigned |signed )?(int|long|short|char|size_t|std::size_t|auto|bool|unsigned|long long|"
                r"unsigned long|std::\w+::size_type)", ty.rstrip("&").strip()):
            if ty.startswith("bool") and v not in _var_ids(rhs):
                self.kill(st, {v})
                st.bdef[v] = (rhs, frozenset(_var_ids(rhs)))
                return
            f = self.lin.form(rhs, st.eq)
            deps = frozenset(i for t_ in f if t_ != "1" for i in self.lin.deps.get(t_, ()))
        self.kill(st, {v})
        if f is not None and v not in deps:
            st.eq[v] = (f, deps)
        if lk is not None:
            st.look[v] = lk

    def call_effects(self, n, st, positive):
        m = _mcall(n) if cir.is_call(n) else None
        argl = list(cir.kids(n)[1:]) if cir.is_call(n) else list(cir.kids(n))
        heap = cir.is_call(n)
        if m:
            name, obj, argl = m
            s = self.setvar(obj)
            if s and name in ("insert", "emplace", "operator[]") and len(argl) >= 1:
                if positive:
                    st.ins.add((s, tokkey(argl[0])))
                heap = False
            elif s and name not in NONMUT:
                self.shrunk.add(s)
                st.fresh = {(a, b) for a, b in st.fresh if a != s}
                st.ins = {(a, b) for a, b in st.ins if a != s}
            elif name in NONMUT or _is_const_obj(obj) or name in ("operator==", "operator!=", "operator<", "operator>>",
                                                                  "operator<<"):
                heap = False
                if name in ("operator>>", "operator<<"):
                    self.kill(st, {cir_base_id(obj)})
            else:
                self.kill(st, {cir_base_id(obj)})
        elif cir.is_call(n) and (cir.callee(n) or "").startswith("operator"):
            heap = False
        elif cir.is_call(n) and self.lookups(n):
            heap = False
        for a in argl:
            self.kill(st, {_bare_var(a)})
        if heap:
            self.kill_heap(st)

    # -- statements
    def decl(self, d, st):
        if d is None or d.get("k") != "VarDecl":
            return
        init = [c for c in cir.kids(d) if c is not None and not (c.get("k") or "").endswith("Attr")]
        rhs = init[-1] if init and d.get("init") else None
        if rhs is not None:
            for ev in self.find_stores(rhs):
                ev.st = st.copy()
                ev.loops = tuple(x for kind, x in self.nest if kind == "loop")
                ev.forinits = tuple(frozenset(s) for s in self.forinits)
                if ev.kind in ("store", "callback"):
                    ev.form = self.lin.form(ev.idx, st.eq)
                self.events.append(ev)
            self.effects(rhs, st, True)
        if d.get("id"):
            if (d.get("t") or "").rstrip().endswith("&") and rhs is not None and not re.match(r"\s*const\b", d.get("t") or ""):
                self.kill(st, {d["id"]})       # a mutable alias: no value tracking
                return
            self.define(d["id"], d, rhs, st, True)

    def terminates(self, n):
        x = cir.strip(n)
        if x is None:
            return False
        if x.get("k") == "CXXThrowExpr":
            return True
        return cir.is_call(x) and paths.is_noreturn_call(x, self.errvars)

    def stmt(self, n, st):
        if n is None or st is None:
            return st
        k = n.get("k")
        if k == "CompoundStmt":
            for c in cir.kids(n):
                st = self.stmt(c, st)
                if st is None:
                    return None
            return st
        if k == "DeclStmt":
            for d in cir.kids(n):
                self.decl(d, st)
            return st
        if k == "IfStmt":
            pre, cond, then, els = norm._if_parts(n)
            for p_ in pre:
                st = self.stmt(p_, st)
            self.expr(cond, st)
            t_, e_ = st.copy(), st.copy()
            self.assume(cond, True, t_)
            self.assume(cond, False, e_)
            ot = self.stmt(then, t_)
            oe = self.stmt(els, e_) if els is not None else e_
            return join(ot, oe)
        if k in LOOPS:
            return self.loop(n, st)
        if k == "ReturnStmt":
            for c in cir.kids(n):
                self.expr(c, st)
            self.returns.append((n, st.copy(), tuple(x for kind, x in self.nest if kind == "loop")))
            return None
        if k == "BreakStmt":
            return None
        if k == "ContinueStmt":
            for kind, x in reversed(self.nest):
                if kind == "loop":
                    self.iter_ends.setdefault(id(x), []).append(st)
                    break
            return None
        if k == "SwitchStmt":
            c = [x for x in cir.kids(n) if x is not None]
            for x in c[:-1]:
                if x.get("k") == "DeclStmt":
                    st = self.stmt(x, st)
                else:
                    self.expr(x, st)
            entry = st.copy()
            self.kill(entry, writes(c[-1]))
            self.nest.append(("switch", n))
            cur = None
            for s in norm._stmts(c[-1]):
                while s is not None and s.get("k") in ("CaseStmt", "DefaultStmt"):
                    cur = join(cur, entry.copy()) if cur is not None else entry.copy()
                    s = cir.kids(s)[-1] if cir.kids(s) else None
                if s is not None and cur is not None:
                    cur = self.stmt(s, cur)
            self.nest.pop()
            return entry
        if k == "CXXTryStmt":
            c = [x for x in cir.kids(n) if x is not None]
            out = self.stmt(c[0], st.copy())
            h = st.copy()
            self.kill(h, writes(c[0]))
            for x in c[1:]:
                hb = [y for y in cir.kids(x) if y is not None]
                out = join(out, self.stmt(hb[-1], h.copy()) if hb else h.copy())
            return out
        if k in ("NullStmt", "LabelStmt", "GotoStmt", "CXXCatchStmt"):
            if k == "GotoStmt":
                raise AnalysisError(f"{self.fn.get('n')}: goto in a function with input-indexed stores")
            return st
        if k == "AttributedStmt":
            return self.stmt(cir.kids(n)[-1], st)
        self.expr(n, st)
        if self.terminates(n):
            return None
        return st

    def loop(self, n, st):
        inits, cond, inc, body, at_end = loop_parts(n)
        for i in inits:
            if i.get("k") == "DeclStmt":
                st = self.stmt(i, st)
            else:
                self.expr(i, st)
        self.loop_entry[id(n)] = st.copy()
        entry = st.copy()
        self.kill(entry, writes(n) - {d.get("id") for i in inits for d in cir.walk(i) if d.get("k") == "VarDecl"}
                  | advanced(n))
        init_ids = set()
        for i in inits:
            for x in cir.walk(i):
                if x.get("k") == "VarDecl" and x.get("id"):
                    init_ids.add(x["id"])
                t = _assign_target(x)
                if t is not None and _vid(t):
                    init_ids.add(_vid(t))
        # values set by the init clause survive only if the loop never changes them
        self.kill(entry, init_ids & (writes(body) | (writes(inc) if inc is not None else set())))
        b = entry.copy()
        b.fresh, b.ins, b.pending, b.adv = set(), set(), set(), {}
        self.nest.append(("loop", n))
        self.forinits.append(init_ids)
        if cond is not None and not at_end:
            self.expr(cond, b)
            self.assume(cond, True, b)
        out = self.stmt(body, b)
        if out is not None:
            self.iter_ends.setdefault(id(n), []).append(out)
        self.forinits.pop()
        self.nest.pop()
        after = entry.copy()
        for v in advanced(n):
            after.adv[v] = 2
        if cond is not None and not at_end and not any(x.get("k") == "BreakStmt" for x in cir.walk(body)):
            c2 = after.copy()
            self.assume(cond, False, c2)
            after.rel = c2.rel
        return after

    def run(self):
        st = St()
        self.stmt(cir.body(self.fn), st)
        return self


# ---------------------------------------------------------------------------------------------------------------
# census: which loops are driven by input text


def input_tags(L):
    """How the exits of a loop depend on input text (empty set: they do not)."""
    inits, cond, inc, body, at_end = loop_parts(L)
    tags = set()
    conds = [cond] if cond is not None else []

    def walk_local(n):
        if n is None:
            return
        yield n
        if n.get("k") in LOOPS + ("SwitchStmt", "LambdaExpr"):
            return
        for c in cir.kids(n):
            yield from walk_local(c)

    def gather(n):
        if n is None or n.get("k") in LOOPS + ("SwitchStmt", "LambdaExpr"):
            return
        if n.get("k") == "IfStmt":
            pre, c, then, els = norm._if_parts(n)
            if any(y.get("k") == "BreakStmt" for x in (then, els) for y in walk_local(x)):
                conds.append(c)
        for c in cir.kids(n):
            gather(c)
    gather(body)
    for c in conds:
        for x in cir.walk(c):
            k = x.get("k")
            if STREAM_T.search(_ty(x)):
                tags.add("stream")
            if k in ("MemberExpr", "CXXDependentScopeMemberExpr") and (x.get("n") or x.get("member")) in \
                    ("size", "length", "empty", "end", "cend"):
                o = cir.strip(cir.kids(x)[0]) if cir.kids(x) else None
                to = _ty(o)
                if CONT_T.search(to) or "dependent" in to or to.strip(" |") == "auto":
                    tags.add("container")
            if (k == "UnaryOperator" and x.get("op") == "*" or k == "ArraySubscriptExpr") and \
                    re.search(r"\bchar\b", x.get("t") or "") and "[" not in (cir.strip(cir.kids(x)[0]).get("t") or ""):
                tags.add("cstring")
            if k == "DeclRefExpr" and ELEM_T.search(_ty(x)):
                tags.add("element")
            if cir.is_call(x) and cir.callee(x) == "strlen":
                tags.add("cstring")
            if cir.is_call(x) and cir.callee(x) == "getline":
                tags.add("stream")
    if L["k"] == "CXXForRangeStmt":
        for i in inits:
            for x in cir.walk(i):
                if CONT_T.search(_ty(x)):
                    tags.add("container")
    return tags


def _decls_in(n):
    return {x.get("id") for x in cir.walk(n) if x.get("k") == "VarDecl" and x.get("id")}


def carried_counters(ev, L):
    """ids in the index of an event that are advanced in L and carried from one of its iterations to the next."""
    inits, cond, inc, body, at_end = loop_parts(L)
    adv = advanced(L)
    local = _decls_in(body)
    li = ev.loops.index(L)
    inner_inits = set()
    for s in ev.forinits[li + 1:]:
        inner_inits |= s
    return {v for v in _var_ids(ev.idx) if v in adv and v not in local and v not in inner_inits}


def classify_dest(d, fn, depth=0):
    d = cir.strip(d)
    if d is None:
        return ("unknown", None)
    t = d.get("t") or ""
    k = d.get("k")
    m = re.search(r"\[(\d+)\]\s*$", t)
    if m and k in ("DeclRefExpr", "MemberExpr"):
        return ("array", int(m.group(1)))
    ma = re.search(r"\barray<.*,\s*([\w:]+)\s*>", _ty(d))
    if ma and k in ("DeclRefExpr", "MemberExpr"):
        return ("stdarray", ma.group(1))
    if cir.is_call(d):
        if cir.callee(d) in ("back_inserter", "inserter", "front_inserter"):
            return ("growing", None)
        mc = _mcall(d)
        if mc and mc[0] in ("data", "begin") and mc[1] is not None:
            return classify_dest(mc[1], fn, depth + 1)
        return ("unknown", None)
    if k == "UnaryOperator" and d.get("op") in ("++", "--"):
        return classify_dest(cir.kids(d)[0], fn, depth + 1)
    r = _ref(d)
    if r and r.get("k") == "ParmVarDecl":
        ps = cir.params(fn)
        idx = next((i for i, p_ in enumerate(ps) if p_.get("id") == r.get("id")), None)
        if "*" in t or t.rstrip().endswith("[]"):
            return ("param", idx)
        if re.search(r"\bvector<", _ty(d)):
            return ("vector", r.get("id"))
        return ("callable", idx)
    if r and r.get("k") == "VarDecl":
        if re.search(r"\bvector<", _ty(d)):
            return ("vector", r.get("id"))
        if "*" in t and depth < 3:
            for x in cir.walk(fn):
                if x.get("k") == "VarDecl" and x.get("id") == r.get("id") and x.get("init"):
                    init = [c for c in cir.kids(x) if c is not None][-1]
                    mc = _mcall(init)
                    if mc and mc[0] in ("data", "begin"):
                        return classify_dest(mc[1], fn, depth + 1)
            return ("pointer", None)
    if "*" in t:
        return ("pointer", None)
    return ("unknown", None)


def dest_text(ev):
    if ev.kind == "callback":
        return cir.text(ev.dest) + "()"
    d = ev.dest
    if d is not None and d.get("k") == "UnaryOperator":
        d = cir.kids(d)[0]
    return cir.text(d)


# ---------------------------------------------------------------------------------------------------------------
# finite-table lookups (role, not name): key -> value of the entry whose key equals it, NF when none of `size` entries


def summarise_lookup(fn):
    ps = cir.params(fn)
    body = cir.body(fn)
    if body is None or len(ps) < 3:
        return None
    eng = Engine(fn, lambda c: None)
    try:
        eng.run()
    except AnalysisError:
        return None
    if eng.events and any(e.kind in ("store", "bulk", "callback") for e in eng.events):
        return None
    inside = [r for r in eng.returns if r[2]]
    outside = [r for r in eng.returns if not r[2]]
    if not inside or not outside:
        return None
    nf = None
    for ret, st, _l in outside:
        c = [x for x in cir.kids(ret) if x is not None]
        f = Lin().form(c[0]) if c else None
        if f is None or not set(f) <= {"1"}:
            return None
        v = f.get("1", 0)
        if nf is not None and nf != v:
            return None
        nf = v
    fw = eng.fn_writes
    pid = {p_.get("id"): i for i, p_ in enumerate(ps)}
    pname = {p_.get("n"): i for i, p_ in enumerate(ps)}
    res = None
    for ret, st, loops in inside:
        if len(loops) != 1:
            return None
        L = loops[0]
        size_i = ctr = None
        for f, strict, prem in st.rel:
            if prem is None and strict and len(f) == 2 and sorted(f.values()) == [-1, 1]:
                up = next(t for t, c in f.items() if c == 1)
                lo = next(t for t, c in f.items() if c == -1)
                if up in pname and ps[pname[up]].get("id") not in fw:
                    cid = next(iter(eng.lin.deps.get(lo, ())), None)
                    if cid is not None and len(eng.lin.deps.get(lo, ())) == 1:
                        size_i, ctr = pname[up], cid
        if size_i is None:
            return None
        ent = eng.loop_entry.get(id(L))
        if ent is None or ctr not in ent.eq or ent.eq[ctr][0] != {}:
            return None
        if any(e.kind == "advance" and e.var == ctr and e.step != 1 for e in eng.events):
            return None
        # the returning branch is taken only when the key equals something determined by the table and the counter
        gs = norm.guards(body, ret) or []
        local_init = {}
        for x in cir.walk(L):
            if x.get("k") == "VarDecl" and x.get("id") and x.get("init"):
                local_init[x["id"]] = [c for c in cir.kids(x) if c is not None][-1]

        def base_deps(ids, seen=()):
            out = set()
            for i in ids:
                if i in local_init and i not in seen and i != ctr:
                    out |= base_deps(_var_ids(local_init[i]), seen + (i,))
                else:
                    out.add(i)
            return out
        found = None
        for c, pol in gs:
            e = _equality(c)
            if not e and not pol:
                x = cir.strip(c)
                if cir.is_call(x) and cir.callee(x) == "strcmp" and len(cir.args(x)) == 2:
                    e = (cir.args(x)[0], cir.args(x)[1], True)
                    pol = True
            if not e or e[2] != pol:
                continue
            for a, b in ((e[0], e[1]), (e[1], e[0])):
                ka = _vid(_deep(a))
                if ka in pid and ka not in fw and ka != ps[size_i].get("id"):
                    db = base_deps(_var_ids(b))
                    tbl = [i for i in db if i in pid and i != ka and "*" in (ps[pid[i]].get("t") or "")]
                    if ctr in db and len(tbl) == 1 and not ((db - {ctr}) & fw):
                        found = (pid[tbl[0]], pid[ka])
        if not found:
            return None
        cur = {"table": found[0], "size": size_i, "key": found[1], "nf": nf}
        if res is not None and res != cur:
            return None
        res = cur
    return res


# ---------------------------------------------------------------------------------------------------------------
# judging one function


_INT_T = re.compile(r"(unsigned |signed )?(int|long|short|char|long long|long int|unsigned|size_t|std::size_t|ssize_t|"
                    r"ptrdiff_t|std::ptrdiff_t|[\w:<>, ]*::size_type)( int)?")


class Finding:
    __slots__ = ("key", "fn", "file", "line", "verdict", "argument", "msg", "oblig", "dest", "tags", "kind")

    def __init__(self, **kw):
        for s in self.__slots__:
            setattr(self, s, kw.get(s))


def _input_sized(n):
    for x in cir.walk(n):
        m = _mcall(x)
        if m and m[0] in SIZE_M | {"begin", "end", "cbegin", "cend"} and x.get("k") != "CXXOperatorCallExpr":
            o = cir.strip(container_of(m[1]))
            to = _ty(o)
            if CONT_T.search(to) or "dependent" in to or to.strip(" |") == "auto" or "optional<" in to:
                return True
    return False


def _param_only(lin, K, fn, fw):
    """atoms of K that are not never-written parameters (or members of such)"""
    pids = {p_.get("id") for p_ in cir.params(fn)}
    bad = []
    for t in K:
        if t == "1":
            continue
        d = lin.deps.get(t, frozenset())
        if not d or not d <= pids or d & fw:
            bad.append(t)
    return bad


def judge(f, eng):
    """Findings of one analysed function (f: cxx3.Fn)."""
    fn = f.node
    lin = eng.lin
    fw = eng.fn_writes
    out = []
    for ev in eng.events:
        if ev.kind == "advance":
            continue
        if ev.kind == "bulk":
            fd = _judge_bulk(f, eng, ev)
            if fd:
                out.append(fd)
            continue
        L = None
        for cand in reversed(ev.loops):
            if input_tags(cand) and carried_counters(ev, cand):
                L = cand
                break
        if L is None:
            continue
        dk = classify_dest(ev.dest, fn)
        if ev.kind == "callback" and (dk[0] != "callable" or not _INT_T.fullmatch(
                ((cir.strip(ev.idx) or {}).get("t") or "").replace("const ", "").strip())):
            continue            # only an integer counter handed to a callback can be an index there
        if dk[0] == "growing":
            continue
        counters = carried_counters(ev, L)
        lw = writes(L)
        key = f"{f.key}:{dest_text(ev)}:input-bounded-store"
        base = dict(key=key, fn=f.key, file=f.file, line=ev.node.get("line"), dest=(dest_text(ev), dk),
                    tags=sorted(input_tags(L)), kind=ev.kind)
        # (a) explicit guard
        cands = []
        own = False
        for fr, strict, prem in ev.st.rel:
            K = fadd(fr, ev.form)
            if dk[0] == "vector" and prem is None and strict and K == {f"size({dest_text(ev)})": 1}:
                # the index is tested against the size of the destination itself; sound while the loop does not shrink it
                if not any(_mcall(x) and _mcall(x)[0] in SHRINK and _vid(_mcall(x)[1]) == dk[1]
                           for x in cir.walk(L) if cir.is_call(x)):
                    own = True
            if lin.variant(K, lw):
                continue
            cands.append((K, strict, prem))
        if own:
            out.append(Finding(verdict="ok", argument=f"(a) guard: index {ffmt(ev.form)} < size of the destination itself", **base))
            continue
        # (b) uniqueness
        uniq = _uniqueness(eng, ev, L, counters, lw)
        if uniq and uniq[0] == "ok":
            cands.append((uniq[1], True, None))
        verdicts = []
        for K, strict, prem in cands:
            how = "(b) uniqueness" if (uniq and uniq[0] == "ok" and K is uniq[1]) else "(a) guard"
            desc = f"{how}: index {ffmt(ev.form)} {'<' if strict else '<='} {ffmt(K)}" + \
                   (f" when {ffmt(prem[0])} {'>' if prem[1] else '>='} 0" if prem else "")
            if how.startswith("(b)"):
                desc += f" [{uniq[2]}]"
            if dk[0] in ("array", "stdarray") and (dk[0] == "array" or str(dk[1]).isdigit()):
                E = int(dk[1])
                if prem is not None:
                    continue
                if set(K) <= {"1"}:
                    top = K.get("1", 0) - (1 if strict else 0)
                    if top <= E - 1:
                        verdicts.append(("ok", desc + f"; extent {E}", None))
                    else:
                        verdicts.append(("bad", f"the guard admits index {top} but `{dest_text(ev)}` holds {E} "
                                                f"element{'s' if E != 1 else ''}", None))
                else:
                    verdicts.append(("error", f"guard bound `{ffmt(K)}` cannot be compared with the extent {E}", None))
            elif dk[0] in ("param", "callable"):
                badat = _param_only(lin, K, fn, fw)
                if badat or (prem is not None and _param_only(lin, prem[0], fn, fw)):
                    verdicts.append(("error", f"bound `{ffmt(K)}` is not an expression over the function's parameters", None))
                else:
                    verdicts.append(("ok", desc + "; callers checked", {"param": dk[1], "K": K, "strict": strict,
                                                                          "prem": prem, "argpos": ev.argpos,
                                                                          "must": how.startswith("(b)") or ev.kind == "store"}))
            elif dk[0] == "stdarray":
                ext = {"1": int(dk[1])} if str(dk[1]).isdigit() else {str(dk[1]): 1}
                d = fadd(ext, K, -1)
                if set(d) <= {"1"} and prem is None:
                    if d.get("1", 0) >= (0 if strict else 1):
                        verdicts.append(("ok", desc + f"; extent {dk[1]}", None))
                    else:
                        verdicts.append(("bad", f"the guard admits index {ffmt(K)} but the array holds {dk[1]}", None))
                else:
                    verdicts.append(("error", f"bound `{ffmt(K)}` cannot be compared with the extent {dk[1]}", None))
            else:
                verdicts.append(("error", f"the extent of destination `{dest_text(ev)}` ({dk[0]}) is not known", None))
        ok = [v for v in verdicts if v[0] == "ok"]
        if ok:
            out.append(Finding(verdict="ok", argument=ok[0][1], oblig=ok[0][2], **base))
            continue
        err = [v for v in verdicts if v[0] == "error"]
        if err:
            out.append(Finding(verdict="error", msg=err[0][1], **base))
            continue
        bad = [v for v in verdicts if v[0] == "bad"]
        if bad:
            out.append(Finding(verdict="bad", msg=bad[0][1], **base))
            continue
        # nothing bounds the store: say which leg is missing, or that the shape is not understood
        cnames = {t for t in ev.form if t != "1"}
        unint = [r for r in ev.st.rel if set(r[0]) & cnames]
        if unint:
            out.append(Finding(verdict="error", msg=f"a guard relates the counter to `{ffmt(fadd(unint[0][0], ev.form))}`, "
                                                     f"which changes inside the loop", **base))
            continue
        if uniq and uniq[0] == "error":
            out.append(Finding(verdict="error", msg=uniq[1], **base))
            continue
        why = uniq[1] if uniq else "no guard relates the index to a size and no other bounding argument is present"
        out.append(Finding(verdict="bad", msg=(
            f"`{dest_text(ev)}[{cir.text(ev.idx)}]` is written once per token of the input text "
            f"({'/'.join(sorted(input_tags(L)))}-controlled loop) and nothing bounds the number of stores: {why}; "
            f"a longer list writes past the caller's buffer instead of being rejected"), **base))
    return out


def _uniqueness(eng, ev, L, counters, lw):
    """('ok', size form, text) | ('bad', why) | ('error', why) | None (the argument is not attempted at all)."""
    lin = eng.lin
    st = ev.st
    advs = [e for e in eng.events if e.kind == "advance" and e.var in counters and L in e.loops]
    sets_in_loop = {eng.setvar(x) for x in cir.walk(L) if x.get("k") == "DeclRefExpr"} - {None}
    attempted = bool(st.fresh or st.member or st.look or sets_in_loop or
                     any(a.st.fresh or a.st.member or a.st.look for a in advs))
    if not attempted:
        return None
    if len(counters) != 1 or ev.kind != "store":
        return ("error", "set / table tests are present but the index is not a single counter")
    c = next(iter(counters))
    cname = [t for t in ev.form if t != "1"]
    if len(cname) != 1 or ev.form.get(cname[0]) != 1 or ev.form.get("1", 0) != 0:
        return ("error", f"set / table tests are present but the index `{ffmt(ev.form)}` is not the plain counter")
    if ev.loops[-1] is not L:
        return ("error", "set / table tests are present but the store sits in a nested loop")
    ent = eng.loop_entry.get(id(L))
    if ent is None or c not in ent.eq or ent.eq[c][0] != {}:
        return ("error", "the counter is not known to be 0 when the loop starts")
    pts = [(a.st, a.node, a.step) for a in advs] + [(st, ev.node, 1)]
    missing_ins = set()
    for e_ in eng.iter_ends.get(id(L), []):
        missing_ins |= (e_.pending - e_.ins)
    best = None
    for s_, node, step in pts:
        if step != 1:
            return ("error", "the counter is advanced by something other than one")
        if s_.adv.get(c, 0) >= 1 and node is not ev.node:
            return ("error", "the counter is advanced more than once per iteration")
        fresh = [(S, tok) for S, tok in s_.fresh if S not in eng.shrunk]
        members = s_.member
        looks = {l.tok for l in s_.look.values()}
        if not fresh:
            tested = [(S, tok) for S, tok in s_.ins]
            if eng.shrunk & sets_in_loop:
                return ("bad", "the set of tokens already seen is also emptied / erased inside the loop, so it does not bound "
                               "the number of accepted tokens")
            if tested:
                return ("bad", "tokens are inserted into a set but the token is never rejected when it is already there "
                               "(repeated tokens are stored again)")
            if any(S in eng.shrunk for S, _t in s_.fresh):
                return ("bad", "the set of tokens seen is also emptied / erased inside the loop")
            if members:
                return ("bad", "the token is confined to the table, but repeated tokens are not rejected (no test against "
                               "a set of the tokens already stored), so the count is not bounded by the table size")
            return ("bad", "neither a duplicate test nor a size guard precedes the store")
        got = None
        for S, tok in fresh:
            if (S, tok) in missing_ins or ((S, tok) not in s_.ins and not _inserted_later(eng, L, S, tok)):
                return ("bad", f"the token `{tok[0]}` is tested against the set but never inserted into it on the storing "
                               f"path, so the test never rejects anything")
            if tok in members:
                got = (members[tok], tok)
            elif tok in looks:
                return ("bad", f"the token `{tok[0]}` is looked up in the table but the not-found result is not rejected "
                               f"before the store: unknown (hence unboundedly many distinct) tokens are stored")
        if got is None:
            calls = [x for x in cir.walk(L) if cir.is_call(x) and not eng.lookups(x) and not _mcall(x) and
                     any(tokkey(a)[0] == fresh[0][1][0] for a in cir.args(x)) and
                     not (cir.callee(x) or "").startswith("operator")]
            if calls:
                return ("error", f"the token is passed to {cir.callee(calls[0]) or 'a call'}(), which is not recognised as a "
                                 f"finite-table lookup: cannot decide whether it confines the token to a table")
            return ("bad", "repeated tokens are rejected but the token is not confined to a finite table, so unboundedly "
                           "many distinct tokens are stored")
        size, tok = got[0][0], got[1]
        if lin.variant(size, lw):
            return ("error", f"the table size `{got[0][1]}` changes inside the loop")
        if best is not None and _fkey(best[0]) != _fkey(size):
            return ("error", "different table sizes bound different stores of the same counter")
        best = (size, f"token `{tok[0]}` unique in a growing set and member of a table of `{got[0][1]}` entries")
    return ("ok", best[0], best[1])


def _inserted_later(eng, L, S, tok):
    """(S, tok) inserted on every iteration end reached with the pair pending"""
    ends = eng.iter_ends.get(id(L), [])
    rel = [e_ for e_ in ends if (S, tok) in e_.pending]
    return bool(rel) and all((S, tok) in e_.ins for e_ in rel)


def _judge_bulk(f, eng, ev):
    fn = f.node
    lin = eng.lin
    kind, a0, a1 = ev.amount
    if not (_input_sized(a0) or _input_sized(a1)):
        return None
    dk = classify_dest(ev.dest, fn)
    if dk[0] in ("growing", "vector"):
        return None if dk[0] == "growing" else Finding(
            key=f"{f.key}:{cir.text(ev.dest)}:input-bounded-copy", fn=f.key, file=f.file, line=ev.node.get("line"),
            verdict="error", msg="input-sized copy into a std::vector range: its size is not tracked", dest=(cir.text(ev.dest), dk),
            tags=["bulk"], kind="bulk")
    key = f"{f.key}:{cir.text(ev.dest)}:input-bounded-copy"
    base = dict(key=key, fn=f.key, file=f.file, line=ev.node.get("line"), dest=(cir.text(ev.dest), dk), tags=["bulk"],
                kind="bulk")
    if kind == "range":
        m0, m1 = _mcall(a0), _mcall(a1)
        if not (m0 and m1 and m0[0] in ("begin", "cbegin") and m1[0] in ("end", "cend") and
                cir.text(container_of(m0[1])) == cir.text(container_of(m1[1]))):
            return Finding(verdict="error", msg="source range of the copy is not begin()/end() of one container", **base)
        obj = container_of(m0[1])
        amount = lin.atom(f"size({cir.text(obj)})", _var_ids(obj))
    else:
        amount = lin.form(a1, ev.st.eq)
        if not any(t.startswith("size(") for t in amount):
            return Finding(verdict="error", msg=f"copy amount `{cir.text(a1)}` is input-sized but not linear in a container size",
                           **base)
    for fr, strict, prem in ev.st.rel:
        K = fadd(fr, amount)
        if prem is not None or any(t.startswith("size(") for t in K):
            continue
        desc = f"(a) guard: amount {ffmt(amount)} {'<' if strict else '<='} {ffmt(K)}"
        if dk[0] == "array":
            if set(K) <= {"1"}:
                if K.get("1", 0) - (1 if strict else 0) <= dk[1]:
                    return Finding(verdict="ok", argument=desc + f"; extent {dk[1]}", **base)
                return Finding(verdict="bad", msg=f"the guard admits {K.get('1', 0)} elements but the destination holds {dk[1]}",
                               **base)
            return Finding(verdict="error", msg=f"bound `{ffmt(K)}` cannot be compared with the extent {dk[1]}", **base)
        return Finding(verdict="ok", argument=desc + f"; the relation of `{ffmt(K)}` to the buffer passed in is the callers' / "
                                                     f"row tables' obligation (R-ATTR-BOUND, R-LAYOUT)", **base)
    return Finding(verdict="bad", msg=(
        f"{cir.callee(ev.node)}() copies {ffmt(amount)} input-sized elements into `{cir.text(ev.dest)}` and no guard on the way "
        f"bounds that amount by a size the caller controls: a longer attribute overruns the destination"), **base)


# ---------------------------------------------------------------------------------------------------------------
# call sites: the buffer a caller passes is at least as large as the bound the callee relies on


def _vector_extent(vid, g, lin):
    """Size expression a local std::vector was constructed with (and never shrunk since), else (None, why)."""
    decl = None
    for x in cir.walk(g):
        if x.get("k") == "VarDecl" and x.get("id") == vid:
            decl = x
    if decl is None:
        return None, "the vector is not a local of the caller"
    init = [c for c in cir.kids(decl) if c is not None]
    ctor = cir.strip(init[-1]) if init and decl.get("init") else None
    while ctor is not None and ctor.get("k") in ("ExprWithCleanups", "CXXBindTemporaryExpr", "MaterializeTemporaryExpr"):
        ctor = cir.kids(ctor)[0]
    if ctor is None or ctor.get("k") not in ("CXXConstructExpr", "CXXTemporaryObjectExpr"):
        return None, "the vector is not constructed with a size"
    a = [c for c in cir.kids(ctor) if c is not None and c.get("k") != "CXXDefaultArgExpr"]
    if decl.get("init") == "list" or not re.search(r"\(\s*[\w:<>, ]*size_type\b", ctor.get("ctort") or "") or not a:
        return None, f"constructor `{ctor.get('ctort')}` does not take an element count"
    for x in cir.walk(g):
        m = _mcall(x)
        if m and m[0] in SHRINK and _vid(m[1]) == vid:
            return None, f"the vector is modified by {m[0]}() in the caller"
        if cir.is_call(x) and cir.callee(x) in ("move", "swap") and any(cir_base_id(y) == vid for y in cir.args(x)):
            return None, "the vector is moved from / swapped in the caller"
    return lin.form(a[0]), None


def extent_of(arg, g, lin):
    """(linear form of the number of elements behind a pointer argument, None) or (None, why)."""
    a = cir.strip(arg)
    if a is None:
        return None, "no argument"
    t = a.get("t") or ""
    m = re.search(r"\[(\d+)\]\s*$", t)
    if m and a.get("k") in ("DeclRefExpr", "MemberExpr"):
        return ({"1": int(m.group(1))} if int(m.group(1)) else {}), None
    ma = re.search(r"\barray<.*,\s*([\w:]+)\s*>", _ty(a))
    mc = _mcall(a)
    if mc and mc[0] in ("data", "begin") and a.get("k") != "CXXOperatorCallExpr":
        o = cir.strip(mc[1])
        mo = re.search(r"\barray<.*,\s*([\w:]+)\s*>", _ty(o))
        if mo:
            return ({"1": int(mo.group(1))} if mo.group(1).isdigit() else {mo.group(1): 1}), None
        if re.search(r"\bvector<", _ty(o)) and _vid(o):
            return _vector_extent(_vid(o), g, lin)
        return None, f"`{cir.text(o)}` is neither a local vector nor an array"
    if a.get("k") == "UnaryOperator" and a.get("op") == "&":
        e = cir.strip(cir.kids(a)[0])
        if e is not None and e.get("k") in ("ArraySubscriptExpr", "CXXOperatorCallExpr"):
            c = cir.kids(e)
            b, i = (c[0], c[1]) if e.get("k") == "ArraySubscriptExpr" else (c[1], c[2])
            if set(lin.form(i)) <= set():
                if re.search(r"\bvector<", _ty(cir.strip(b))) and _vid(b):
                    return _vector_extent(_vid(b), g, lin)
                return extent_of(b, g, lin)
    if ma and a.get("k") in ("DeclRefExpr", "MemberExpr"):
        return ({"1": int(ma.group(1))} if ma.group(1).isdigit() else {ma.group(1): 1}), None
    return None, f"the extent of `{cir.text(a)}` ({t}) is not known at this call"


def _lambda_of(arg):
    n = arg
    for _ in range(8):
        n = cir.strip(n)
        if n is None:
            return None
        if n.get("k") == "LambdaExpr":
            return n
        if n.get("k") in ("CXXConstructExpr", "CXXTemporaryObjectExpr") and cir.kids(n):
            n = cir.kids(n)[0]
            continue
        return None
    return None


def check_sites(f, fd, fns, consts):
    """Site findings for one callee finding with an obligation."""
    ob = fd.oblig
    ps = cir.params(f.node)
    pname = {p_.get("n"): i for i, p_ in enumerate(ps)}
    out = []
    for g in fns:
        for call in cir.walk(g.node):
            if not cir.is_call(call) or cir.callee(call) != f.name or g.node is f.node:
                continue
            a = list(cir.args(call))
            if len(a) > len(ps) or len(a) < sum(1 for p_ in ps if not p_.get("init")):
                continue
            lin = Lin(consts)

            def argform(i):
                x = a[i] if i < len(a) else None
                if x is None or x.get("k") == "CXXDefaultArgExpr":
                    d = [c for c in cir.kids(ps[i]) if c is not None]
                    x = d[-1] if d else None
                return lin.form(x) if x is not None else None

            def subst(K):
                need = {}
                for t, c in K.items():
                    if t == "1":
                        need = fadd(need, {"1": c})
                    elif t in pname and argform(pname[t]) is not None:
                        need = fadd(need, {k_: v * c for k_, v in argform(pname[t]).items()})
                    else:
                        return None
                return need
            key = f"{g.key}->{f.name}:{fd.dest[0]}:extent"
            base = dict(key=key, fn=g.key, file=g.file, line=call.get("line"), kind="site", tags=[], dest=fd.dest)
            need = subst(ob["K"])
            if need is None:
                out.append(Finding(verdict="error", msg=f"bound `{ffmt(ob['K'])}` cannot be expressed at the call", **base))
                continue
            if not ob["strict"]:
                need = fadd(need, {"1": 1})
            prem_ok = None
            if ob["prem"] is not None:
                pf = subst(ob["prem"][0])
                if pf is not None and set(pf) <= {"1"}:
                    prem_ok = (pf.get("1", 0) > 0) if ob["prem"][1] else (pf.get("1", 0) >= 0)
            if ob["param"] is None or ob["param"] >= len(a):
                out.append(Finding(verdict="error", msg="destination argument not found at the call", **base))
                continue
            darg = a[ob["param"]]
            if fd.kind == "callback":
                lam = _lambda_of(darg)
                if lam is None:
                    out.append(Finding(verdict="error", msg=f"callback `{cir.text(darg)}` is not a lambda written at the call", **base))
                    continue
                rec = [c for c in cir.kids(lam) if c is not None and c.get("k") == "CXXRecordDecl"]
                op = next((m_ for r_ in rec for m_ in cir.kids(r_) if m_ is not None and m_.get("n") == "operator()"), None)
                lps = cir.params(op) if op is not None else []
                if ob["argpos"] is None or ob["argpos"] >= len(lps):
                    out.append(Finding(verdict="error", msg="callback parameter for the index not found", **base))
                    continue
                ipid = lps[ob["argpos"]].get("id")
                body = [c for c in cir.kids(lam) if c is not None and c.get("k") == "CompoundStmt"]
                eng = Engine(op, lambda c: None, consts)
                stores = [e for e in eng.find_stores(body[-1])] if body else []
                stores = [e for e in stores if e.kind == "store" and ipid in _var_ids(e.idx)]
                if not stores:
                    out.append(Finding(verdict="ok", argument="callback performs no indexed store with the counter", **base))
                    continue
                worst = None
                for e in stores:
                    iform = lin.form(e.idx)
                    iname = lps[ob["argpos"]].get("n")
                    if iform != {iname: 1}:
                        worst = ("error", f"callback stores at `{cir.text(e.idx)}`, not at the plain counter")
                        break
                    ext, why = extent_of(e.dest, g.node, lin)
                    if ext is None and classify_dest(e.dest, g.node)[0] == "vector":
                        ext, why = _vector_extent(_vid(e.dest), g.node, lin)
                    if ext is None:
                        worst = ("error", why)
                        break
                    d = fadd(ext, need, -1)
                    if prem_ok is False:
                        worst = ("bad", f"the callee's bound does not apply for this size argument, the callback's store into "
                                        f"`{cir.text(e.dest)}` is unbounded")
                        break
                    if not set(d) <= {"1"}:
                        worst = ("error", f"extent `{ffmt(ext)}` of `{cir.text(e.dest)}` cannot be related to the bound `{ffmt(need)}`")
                        break
                    if d.get("1", 0) < 0:
                        worst = ("bad", f"`{cir.text(e.dest)}` holds {ffmt(ext)} elements but the callee stores up to index "
                                        f"{ffmt(fadd(need, {'1': -1}))}")
                        break
                    if prem_ok is None and ob["prem"] is not None and d.get("1", 0) != 0:
                        worst = ("error", "cannot decide whether the size argument is non-negative")
                        break
                if worst:
                    out.append(Finding(verdict=worst[0], msg=worst[1], **base))
                else:
                    out.append(Finding(verdict="ok", argument=f"callback stores into a buffer of {ffmt(need)} elements", **base))
                continue
            ext, why = extent_of(darg, g.node, lin)
            if ext is None:
                out.append(Finding(verdict="error" if ob["must"] else "skip", msg=(
                    f"cannot relate the buffer passed as `{cir.text(darg)}` to the size argument `{ffmt(need)}`: {why}"), **base))
                continue
            d = fadd(ext, need, -1)
            if not set(d) <= {"1"}:
                out.append(Finding(verdict="error" if ob["must"] else "skip", msg=(
                    f"extent `{ffmt(ext)}` of `{cir.text(darg)}` cannot be related to the bound `{ffmt(need)}`"), **base))
            elif d.get("1", 0) < 0:
                out.append(Finding(verdict="bad", msg=(
                    f"`{cir.text(darg)}` holds {ffmt(ext)} elements but {f.key} may store {ffmt(need)} "
                    f"(index up to {ffmt(fadd(need, {'1': -1}))}): {fd.argument}"), **base))
            else:
                out.append(Finding(verdict="ok", argument=f"buffer of {ffmt(ext)} elements >= {ffmt(need)}", **base))
    return out


# ---------------------------------------------------------------------------------------------------------------
# driver


def global_consts(irs):
    """name -> value of namespace-scope `const int X = <literal>` declarations."""
    vals = {}

    def visit(d):
        if d is None:
            return
        if d.get("k") in ("NamespaceDecl", "LinkageSpecDecl"):
            for c in cir.kids(d):
                visit(c)
        elif d.get("k") == "VarDecl" and d.get("init") and re.match(r"\s*(static\s+)?const(expr)?\b", d.get("t") or ""):
            init = [c for c in cir.kids(d) if c is not None]
            f = Lin().form(init[-1]) if init else None
            if f is not None and set(f) <= {"1"}:
                v = f.get("1", 0)
                if vals.setdefault(d.get("n"), v) != v:
                    vals[d.get("n")] = None
    for ir in irs:
        for d in ir["decls"]:
            visit(d)
    return lambda ref: vals.get(ref.get("n")) if ref.get("k") == "VarDecl" and not ref.get("local") else None


class _PseudoFn:
    def __init__(self, f, node, n):
        self.qual, self.name, self.file, self.tu, self.node = f.qual, f.name, f.file, f.tu, node
        self.key = f"{f.key}::<lambda#{n}>"
        self.line = node.get("line")


def _lambda_ops(f):
    out = []
    for x in cir.walk(f.node):
        if x.get("k") == "LambdaExpr":
            for r_ in cir.kids(x):
                if r_ is not None and r_.get("k") == "CXXRecordDecl":
                    for m_ in cir.kids(r_):
                        if m_ is not None and m_.get("n") == "operator()" and cir.body(m_) is not None:
                            out.append(_PseudoFn(f, m_, len(out)))
    return out


def analyse(all_fns, irs, prefix="src/xml/"):
    """(findings, census, stats) over the functions whose file starts with prefix."""
    consts = global_consts(irs)
    by_name = {}
    for f in all_fns:
        by_name.setdefault(f.name, []).append(f)
    cache = {}

    def lookups(call):
        name = cir.callee(call)
        if not name or name not in by_name:
            return None
        if name not in cache:
            sums = [summarise_lookup(g.node) for g in by_name[name] if cir.body(g.node) is not None and
                    len(cir.params(g.node)) == len(cir.args(call))]
            cache[name] = sums[0] if sums and all(s is not None and s == sums[0] for s in sums) else None
        return cache[name]

    seen, xml = set(), []
    for f in all_fns:
        if not f.file.startswith(prefix):
            continue
        ident = (f.file, f.line, f.name, f.node.get("off"))
        if ident in seen:
            continue
        seen.add(ident)
        xml.append(f)
        xml.extend(_lambda_ops(f))
    findings, grow, stats = [], {}, {"functions": len(xml), "loops": 0, "input_loops": 0, "analysed_functions": 0}
    for f in xml:
        body = cir.body(f.node)
        if body is None:
            continue
        loops = [x for x in cir.walk(body) if x.get("k") in LOOPS]
        tagged = [L for L in loops if input_tags(L)]
        stats["loops"] += len(loops)
        stats["input_loops"] += len(tagged)
        for L in tagged:
            n_ = sum(1 for x in cir.walk(L) if cir.is_call(x) and _mcall(x) and _mcall(x)[0] in GROW and
                     x.get("k") != "CXXOperatorCallExpr" or (x.get("k") == "CXXOperatorCallExpr" and cir.callee(x) == "operator+="))
            if n_:
                grow[f.key] = grow.get(f.key, 0) + n_
        has_bulk = any(cir.is_call(x) and cir.callee(x) in BULK and not _mcall(x) for x in cir.walk(body))
        if not tagged and not has_bulk:
            continue
        stats["analysed_functions"] += 1
        eng = Engine(f.node, lookups, consts).run()
        findings.extend((f, fd) for fd in judge(f, eng))
    sites = []
    real = [g for g in xml]
    for f, fd in findings:
        if fd.verdict == "ok" and fd.oblig:
            sites.extend(check_sites(f, fd, real, consts))
    return findings, sites, grow, stats


def run_rule(res, all_fns, irs, floor=5, floor_sites=5):
    res.rule("R-INPUT-BOUND", "every store indexed by a counter of an input-controlled loop (and every input-sized bulk copy) "
             "in src/xml is bounded on all paths: by a guard against a size expression, or by the uniqueness argument "
             "(token absent from a growing set, inserted, member of a finite table)", floor=floor)
    res.rule("R-INPUT-BOUND-CALL", "the buffer each caller passes is at least as large as the bound the callee's store relies on",
             floor=floor_sites)
    findings, sites, grow, stats = analyse(all_fns, irs)
    errors = []
    per = {}
    for f, fd in findings:
        per.setdefault(fd.key, []).append(fd)
    census = []
    for key, fds in sorted(per.items()):
        bad = [x for x in fds if x.verdict == "bad"]
        err = [x for x in fds if x.verdict == "error"]
        fd = (bad or err or fds)[0]
        census.append({"function": fd.fn, "file": fd.file, "line": fd.line, "loop": fd.tags, "store": fd.kind,
                       "destination": f"{fd.dest[0]} ({fd.dest[1][0]}" + (
                           f" {fd.dest[1][1]}" if fd.dest[1][0] in ("array", "stdarray", "param", "callable") else "") + ")",
                       "verdict": fd.verdict, "argument": fd.argument or fd.msg})
        if bad:
            res.bad("R-INPUT-BOUND", key, fd.file, fd.line, fd.msg)
        elif err:
            errors.append(f"{key} ({fd.file}:{fd.line}): {fd.msg}")
        else:
            res.ok("R-INPUT-BOUND", key, {"argument": fd.argument})
    per = {}
    for fd in sites:
        per.setdefault(fd.key, []).append(fd)
    site_census = []
    for key, fds in sorted(per.items()):
        bad = [x for x in fds if x.verdict == "bad"]
        err = [x for x in fds if x.verdict == "error"]
        fd = (bad or err or fds)[0]
        site_census.append({"site": key, "file": fd.file, "line": fd.line, "verdict": fd.verdict, "detail": fd.argument or fd.msg})
        if bad:
            res.bad("R-INPUT-BOUND-CALL", key, fd.file, fd.line, fd.msg)
        elif err:
            errors.append(f"{key} ({fd.file}:{fd.line}): {fd.msg}")
        elif fd.verdict == "ok":
            res.ok("R-INPUT-BOUND-CALL", key, {"detail": fd.argument})
    res.extra["input_bound_census"] = {"stores": census, "call_sites": site_census,
                                       "self_growing_stores_in_input_loops": dict(sorted(grow.items())), "scanned": stats}
    res.count("input_controlled_loops", stats["input_loops"])
    if errors:
        raise AnalysisError("R-INPUT-BOUND cannot decide: " + "; ".join(errors[:6]))
    return census
