"""Kill orphaned sa.check worker processes (development helper; not used by any registered command)."""
import os
import signal

me = os.getpid()
for pid in os.listdir("/proc"):
    if not pid.isdigit() or int(pid) == me:
        continue
    try:
        cmd = open(f"/proc/{pid}/cmdline", "rb").read().split(b"\0")
    except OSError:
        continue
    if len(cmd) >= 3 and cmd[1] == b"-m" and cmd[2] == b"sa.check" and cmd[0].endswith(b"python"):
        try:
            ppid = int(open(f"/proc/{pid}/stat").read().split()[3])
        except Exception:
            ppid = 0
        if ppid == 1:
            os.kill(int(pid), signal.SIGKILL)
            print("killed", pid)
