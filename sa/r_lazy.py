"""R-LAZY facts: accesses to the lazy-evaluation flags of mjData (fields named flg_*)."""
from __future__ import annotations

from . import cir, modref


def _flag_of(n):
    n = cir.strip(n)
    if n is not None and n.get("k") == "MemberExpr" and n.get("arrow") and (n.get("n") or "").startswith("flg_"):
        c = cir.kids(n)
        base = cir.strip(c[0]) if c else None
        if base is not None and "mjData" in (base.get("t") or ""):
            return n.get("n")
    return None


def flag_access(unit):
    out = {}
    for name, fn in unit.funcs.items():
        reads, sets = set(), []
        written_nodes = set()
        for n in cir.walk(fn):
            if n.get("k") == "BinaryOperator" and n.get("op") == "=":
                f = _flag_of(cir.kids(n)[0])
                if f:
                    v = cir.text(cir.kids(n)[1])
                    sets.append((f, v, n.get("line")))
                    written_nodes.add(id(cir.strip(cir.kids(n)[0])))
        for n in cir.walk(fn):
            if n.get("k") == "MemberExpr" and id(n) not in written_nodes:
                f = _flag_of(n)
                if f:
                    reads.add(f)
        # flags cleared by the statement prefix of the body that precedes the first call
        top = set()
        b = cir.body(fn)
        for st in cir.kids(b):
            if st is None:
                continue
            if st.get("k") == "DeclStmt":
                # timer macros call mjcb_time: ignore; any other call ends the prefix
                cs = [c for c in cir.calls(st) if cir.callee(c) is not None]
                if cs:
                    break
                continue
            if st.get("k") == "BinaryOperator" and st.get("op") == "=":
                f = _flag_of(cir.kids(st)[0])
                if f and cir.text(cir.kids(st)[1]) == "0":
                    top.add(f)
                    continue
            if any(True for _ in cir.calls(st)) or st.get("k") in ("IfStmt", "ForStmt", "WhileStmt", "SwitchStmt"):
                break
        if reads or sets:
            out[name] = {"reads": sorted(reads), "sets": sets, "top_clears": sorted(top),
                         "file": fn.get("file") or unit.tu, "line": fn.get("line")}
    return out
