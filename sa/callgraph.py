"""Whole-engine call graph + field mod events (built per TU in workers, merged here)."""
from __future__ import annotations

from . import cir, engine, modref
from .cfront import AnalysisError

_CACHE = {}


def _unit_summary(unit, structs, reads):
    s = modref.unit_events(unit, structs, reads)
    # function-pointer tables and address-taken functions
    tables = {}
    for vname, v in unit.vars.items():
        if v.get("init"):
            refs = []
            for x in cir.walk(v):
                if x.get("k") == "DeclRefExpr" and (x.get("ref") or {}).get("k") == "FunctionDecl":
                    refs.append(x["ref"]["n"])
            if refs:
                tables[vname] = sorted(set(refs))
    static_ids = {}
    for vname, v in unit.vars.items():
        if v.get("id"):
            static_ids[v["id"]] = vname
    for fname_, fn_ in unit.funcs.items():
        for x in cir.walk(fn_):
            if x.get("k") == "VarDecl" and x.get("storageClass") == "static" and x.get("id"):
                static_ids[x["id"]] = f"{fname_}::{x.get('n')}"
    # extern declarations in headers refer to the same object by name: map every VarDecl id seen in this TU
    for d in unit.ir["decls"]:
        if d.get("k") == "VarDecl" and d.get("id") and d.get("n"):
            static_ids.setdefault(d["id"], d["n"])
    # functions passed as arguments (task functions, comparators)
    for name, fn in unit.funcs.items():
        passed = []
        for c in cir.calls(fn):
            for i, a in enumerate(cir.args(c)):
                x = cir.strip(a)
                if x is not None and x.get("k") == "UnaryOperator" and x.get("op") == "&":
                    x = cir.strip(cir.kids(x)[0])
                if x is not None and x.get("k") == "DeclRefExpr" and (x.get("ref") or {}).get("k") == "FunctionDecl":
                    passed.append((cir.callee(c), i, x["ref"]["n"]))
        # indirect calls through variables/fields
        indirect = []
        # local function-pointer variables: where their value comes from
        fp_src = {}
        for x in cir.walk(fn):
            if x.get("k") == "VarDecl" and x.get("init") and "(*)" in (x.get("dt") or x.get("t") or ""):
                fp_src.setdefault(x.get("n"), set()).add(cir.text([c_ for c_ in cir.kids(x) if c_][-1]))
            if x.get("k") == "BinaryOperator" and x.get("op") == "=":
                l = cir.strip(cir.kids(x)[0])
                if l is not None and l.get("k") == "DeclRefExpr" and "(*)" in (l.get("dt") or l.get("t") or ""):
                    fp_src.setdefault((l.get("ref") or {}).get("n"), set()).add(cir.text(cir.kids(x)[1]))
        for c in cir.calls(fn):
            if cir.callee(c) is None or (cir.callee_expr(c) is not None and cir.callee_expr(c).get("k") == "MemberExpr"
                                         and unit.ir["lang"] == "c"):
                t = cir.text(cir.callee_expr(c))
                indirect.append((t, c.get("line")))
                for src in sorted(fp_src.get(t, ())):
                    indirect.append((src, c.get("line")))
        s[name]["passed"] = passed
        s[name]["indirect"] = indirect
        s[name]["tls"] = None
        # writes to objects of static storage (file scope or function-local static)
        gw = []
        for n in cir.walk(fn):
            k = n.get("k")
            if (k == "BinaryOperator" and n.get("op") == "=") or k == "CompoundAssignOperator" or \
                    (k == "UnaryOperator" and n.get("op") in ("++", "--")):
                b = cir.strip(cir.kids(n)[0])
                deref = False
                while b is not None and b.get("k") in ("MemberExpr", "ArraySubscriptExpr", "UnaryOperator"):
                    if b.get("k") == "UnaryOperator" and b.get("op") != "*":
                        break
                    if b.get("k") == "MemberExpr" and b.get("arrow"):
                        deref = True
                    if b.get("k") == "UnaryOperator":
                        deref = True
                    if b.get("k") == "ArraySubscriptExpr" and "*" in ((cir.strip(cir.kids(b)[0]) or {}).get("t") or "") \
                            and "[" not in ((cir.strip(cir.kids(b)[0]) or {}).get("t") or ""):
                        deref = True
                    b = cir.strip(cir.kids(b)[0])
                if b is not None and b.get("k") == "DeclRefExpr" and not deref:
                    rid = (b.get("ref") or {}).get("id")
                    if rid in static_ids:
                        gw.append((static_ids[rid], n.get("line")))
        s[name]["gwrites"] = gw
    statics = {}
    for vname, v in unit.vars.items():
        if (v.get("file") or unit.tu) == unit.tu or v.get("storageClass") != "extern":
            statics[vname] = {"tls": v.get("tls"), "storage": v.get("storageClass"), "type": v.get("t"),
                              "const": "const" in (v.get("t") or "").split("*")[-1] if "*" in (v.get("t") or "") else
                              (v.get("t") or "").startswith("const "), "file": v.get("file") or unit.tu,
                              "line": v.get("line"), "init": bool(v.get("init"))}
    # function-local statics
    for name, fn in unit.funcs.items():
        for x in cir.walk(fn):
            if x.get("k") == "VarDecl" and x.get("storageClass") == "static":
                statics[f"{name}::{x.get('n')}"] = {"tls": x.get("tls"), "storage": "static", "type": x.get("t"),
                                                    "const": (x.get("t") or "").startswith("const "),
                                                    "file": fn.get("file") or unit.tu, "line": x.get("line"),
                                                    "init": bool(x.get("init")), "local_of": name}
    return {"funcs": s, "tables": tables, "statics": statics}


class Graph:
    def __init__(self, per_tu):
        self.per_tu = per_tu
        self.funcs = {}          # (tu, name) -> summary
        self.globals = {}        # name -> (tu, name)
        self.headers = {}
        self.tables = {}
        self.statics = {}
        for tu, s in per_tu.items():
            self.tables.update(s["tables"])
            for k, v in s["statics"].items():
                self.statics[(tu, k)] = v
            for name, f in s["funcs"].items():
                if f["file"] != tu:
                    self.headers.setdefault(name, (tu, name))
                    self.funcs.setdefault(self.headers[name], f)
                    continue
                self.funcs[(tu, name)] = f
                if not f["static"]:
                    self.globals.setdefault(name, (tu, name))

    def resolve(self, tu, name):
        if (tu, name) in self.funcs:
            return (tu, name)
        if name in self.globals:
            return self.globals[name]
        return self.headers.get(name)

    def find(self, name):
        """key of the unique function called `name` (global, header or unique static)."""
        if name in self.globals:
            return self.globals[name]
        if name in self.headers:
            return self.headers[name]
        c = [k for k in self.funcs if k[1] == name]
        if len(c) == 1:
            return c[0]
        if not c:
            return None
        raise AnalysisError(f"function name {name} is ambiguous: {c}")

    def callees(self, key, indirect=True):
        f = self.funcs[key]
        out = set()
        for c in f["calls"]:
            r = self.resolve(key[0], c)
            if r is not None:
                out.add(r)
        if indirect:
            for callee, i, fname in f.get("passed", ()):
                r = self.resolve(key[0], fname)
                if r is not None:
                    out.add(r)
            for txt, line in f.get("indirect", ()):
                base = txt.split("[")[0]
                if base in self.tables:
                    for fname in self.tables[base]:
                        r = self.resolve(key[0], fname)
                        if r is not None:
                            out.add(r)
        return out

    def closure(self, roots, indirect=True, stop=()):
        seen = set()
        work = [r for r in roots if r is not None]
        while work:
            k = work.pop()
            if k in seen or k[1] in stop:
                continue
            seen.add(k)
            work.extend(self.callees(k, indirect) - seen)
        return seen

    def external_calls(self, keys):
        """names called from `keys` that have no definition in the analysed TUs"""
        out = {}
        for k in keys:
            for c in self.funcs[k]["calls"]:
                if self.resolve(k[0], c) is None:
                    out.setdefault(c, []).append(k[1])
        return out


def build(structs=("mjData", "mjModel", "mjvScene", "mjOption"), reads=False, tus=None):
    key = (tuple(structs), reads, tuple(tus or ()))
    if key in _CACHE:
        return _CACHE[key]
    tus = tus or engine.engine_tus()
    per_tu = engine.map_tus("sa.callgraph", "_unit_summary", tus, extra=(list(structs), reads))
    g = Graph(per_tu)
    _CACHE[key] = g
    return g
