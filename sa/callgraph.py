"""Whole-engine call graph + field mod events (built per TU in workers, merged here)."""
from __future__ import annotations

from . import cir, engine, modref
from .cfront import AnalysisError

_CACHE = {}


def _unit_summary(unit, structs, reads):
    s = modref.unit_events(unit, structs, reads)
    # function-pointer tables and address-taken functions
    tables = {}
    for vname, v in unit.vars.items():
        if v.get("init"):
            refs = []
            for x in cir.walk(v):
                if x.get("k") == "DeclRefExpr" and (x.get("ref") or {}).get("k") == "FunctionDecl":
                    refs.append(x["ref"]["n"])
            if refs:
                tables[vname] = sorted(set(refs))
    # functions passed as arguments (task functions, comparators)
    for name, fn in unit.funcs.items():
        passed = []
        for c in cir.calls(fn):
            for i, a in enumerate(cir.args(c)):
                x = cir.strip(a)
                if x is not None and x.get("k") == "UnaryOperator" and x.get("op") == "&":
                    x = cir.strip(cir.kids(x)[0])
                if x is not None and x.get("k") == "DeclRefExpr" and (x.get("ref") or {}).get("k") == "FunctionDecl":
                    passed.append((cir.callee(c), i, x["ref"]["n"]))
        # indirect calls through variables/fields
        indirect = []
        for c in cir.calls(fn):
            if cir.callee(c) is None or (cir.callee_expr(c) is not None and cir.callee_expr(c).get("k") == "MemberExpr"
                                         and unit.ir["lang"] == "c"):
                indirect.append((cir.text(cir.callee_expr(c)), c.get("line")))
        s[name]["passed"] = passed
        s[name]["indirect"] = indirect
        s[name]["tls"] = None
    statics = {}
    for vname, v in unit.vars.items():
        if (v.get("file") or unit.tu) == unit.tu or v.get("storageClass") != "extern":
            statics[vname] = {"tls": v.get("tls"), "storage": v.get("storageClass"), "type": v.get("t"),
                              "const": "const" in (v.get("t") or "").split("*")[-1] if "*" in (v.get("t") or "") else
                              (v.get("t") or "").startswith("const "), "file": v.get("file") or unit.tu,
                              "line": v.get("line"), "init": bool(v.get("init"))}
    # function-local statics
    for name, fn in unit.funcs.items():
        for x in cir.walk(fn):
            if x.get("k") == "VarDecl" and x.get("storageClass") == "static":
                statics[f"{name}::{x.get('n')}"] = {"tls": x.get("tls"), "storage": "static", "type": x.get("t"),
                                                    "const": (x.get("t") or "").startswith("const "),
                                                    "file": fn.get("file") or unit.tu, "line": x.get("line"),
                                                    "init": bool(x.get("init")), "local_of": name}
    return {"funcs": s, "tables": tables, "statics": statics}


class Graph:
    def __init__(self, per_tu):
        self.per_tu = per_tu
        self.funcs = {}          # (tu, name) -> summary
        self.globals = {}        # name -> (tu, name)
        self.headers = {}
        self.tables = {}
        self.statics = {}
        for tu, s in per_tu.items():
            self.tables.update(s["tables"])
            for k, v in s["statics"].items():
                self.statics[(tu, k)] = v
            for name, f in s["funcs"].items():
                if f["file"] != tu:
                    self.headers.setdefault(name, (tu, name))
                    self.funcs.setdefault(self.headers[name], f)
                    continue
                self.funcs[(tu, name)] = f
                if not f["static"]:
                    self.globals.setdefault(name, (tu, name))

    def resolve(self, tu, name):
        if (tu, name) in self.funcs:
            return (tu, name)
        if name in self.globals:
            return self.globals[name]
        return self.headers.get(name)

    def find(self, name):
        """key of the unique function called `name` (global, header or unique static)."""
        if name in self.globals:
            return self.globals[name]
        if name in self.headers:
            return self.headers[name]
        c = [k for k in self.funcs if k[1] == name]
        if len(c) == 1:
            return c[0]
        if not c:
            return None
        raise AnalysisError(f"function name {name} is ambiguous: {c}")

    def callees(self, key, indirect=True):
        f = self.funcs[key]
        out = set()
        for c in f["calls"]:
            r = self.resolve(key[0], c)
            if r is not None:
                out.add(r)
        if indirect:
            for callee, i, fname in f.get("passed", ()):
                r = self.resolve(key[0], fname)
                if r is not None:
                    out.add(r)
            for txt, line in f.get("indirect", ()):
                base = txt.split("[")[0]
                if base in self.tables:
                    for fname in self.tables[base]:
                        r = self.resolve(key[0], fname)
                        if r is not None:
                            out.add(r)
        return out

    def closure(self, roots, indirect=True, stop=()):
        seen = set()
        work = [r for r in roots if r is not None]
        while work:
            k = work.pop()
            if k in seen or k[1] in stop:
                continue
            seen.add(k)
            work.extend(self.callees(k, indirect) - seen)
        return seen

    def external_calls(self, keys):
        """names called from `keys` that have no definition in the analysed TUs"""
        out = {}
        for k in keys:
            for c in self.funcs[k]["calls"]:
                if self.resolve(k[0], c) is None:
                    out.setdefault(c, []).append(k[1])
        return out


def build(structs=("mjData", "mjModel", "mjvScene", "mjOption"), reads=False, tus=None):
    key = (tuple(structs), reads, tuple(tus or ()))
    if key in _CACHE:
        return _CACHE[key]
    tus = tus or engine.engine_tus()
    per_tu = engine.map_tus("sa.callgraph", "_unit_summary", tus, extra=(list(structs), reads))
    g = Graph(per_tu)
    _CACHE[key] = g
    return g
