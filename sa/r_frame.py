"""R-FRAME: typestate of mjData stack frames on all paths of every function.

State = depth of open mj_markStack frames per mjData expression.
Obligations per function:
  F1  depth is 0 at every return and at fall-through            (balanced)
  F2  mj_freeStack never runs at depth 0                         (no free without mark)
  F3  stack allocations happen at depth >= 1, unless the function never marks: then it is a
      *caller-frame helper* and the obligation moves to all of its call sites (fixpoint)
  F4  loop bodies are depth-neutral (follows from the fixpoint: depth is capped)
"""
from __future__ import annotations

from . import cir, paths

MARK = {"mj_markStack"}
FREE = {"mj_freeStack"}
ALLOC = {"mj_stackAllocByte", "mj_stackAllocInfo", "mj_stackAllocNum", "mj_stackAllocInt"}
PRIMITIVES = MARK | FREE | ALLOC | {"stackalloc", "stackallocinternal", "markstackinternal",
                                    "freestackinternal"}
MAXDEPTH = 6


class FrameRule(paths.Rule):
    def __init__(self):
        self.events = []

    def initial(self, fn):
        return ()  # tuple of (dtext, depth) sorted

    @staticmethod
    def _get(state, key):
        for k, v in state:
            if k == key:
                return v
        return 0

    @staticmethod
    def _set(state, key, val):
        d = dict(state)
        if val == 0:
            d.pop(key, None)
        else:
            d[key] = val
        return tuple(sorted(d.items()))

    def call(self, state, node, name, ctx):
        if name in MARK or name in FREE or name in ALLOC:
            a = cir.args(node)
            key = cir.text(a[0]) if a else "?"
            dep = self._get(state, key)
            if name in MARK:
                if dep + 1 > MAXDEPTH:
                    ctx.report(node, "frame depth grows without bound (mark inside a loop without free)", kind="F4")
                    return None
                ctx.marks.add(node.get("line"))
                return self._set(state, key, dep + 1)
            if name in FREE:
                ctx.frees.add(node.get("line"))
                if dep == 0:
                    ctx.report(node, f"mj_freeStack({key}) reached with no open frame on some path", kind="F2")
                    return state
                return self._set(state, key, dep - 1)
            # alloc
            if dep == 0:
                ctx.alloc0.add((node.get("line"), name))
            else:
                ctx.alloc_ok.add((node.get("line"), name))
            return state
        if name is not None:
            a = cir.args(node)
            # depth of the mjData argument passed (first pointer-to-mjData argument)
            key = None
            for x in a:
                t = (x.get("t") or "")
                if "mjData" in t and "*" in t:
                    key = cir.text(x)
                    break
            if key is not None:
                dep = self._get(state, key)
                if dep == 0:
                    ctx.calls0.add((name, node.get("line")))
                else:
                    ctx.calls_in.add((name, node.get("line")))
        return state

    def ret(self, state, node, ctx):
        for k, v in state:
            if v:
                ctx.report(node, f"return with {v} open stack frame(s) on {k}", kind="F1")

    def fallthrough(self, state, ctx):
        for k, v in state:
            if v:
                ctx.report(ctx.fn, f"function end reached with {v} open stack frame(s) on {k}", kind="F1")


def analyse_unit(unit):
    """Per-TU summaries: {func: {...}}"""
    out = {}
    for name, fn in unit.funcs.items():
        if name in PRIMITIVES:
            continue
        # quick filter: does the function mention any frame primitive or pass mjData?
        names = {cir.callee(c) for c in cir.calls(fn)}
        rule = FrameRule()
        ex = paths.Explorer(rule, unit, fn)
        ctx = ex.ctx
        ctx.marks, ctx.frees, ctx.alloc0, ctx.alloc_ok = set(), set(), set(), set()
        ctx.calls0, ctx.calls_in = set(), set()
        if names & (MARK | FREE | ALLOC) or any("mjData" in (p.get("t") or "") for p in cir.params(fn)) \
                or any("mjData" in (x.get("t") or "") for x in cir.walk(fn) if x.get("k") == "VarDecl"):
            ex.run()
        out[name] = {
            "file": fn.get("file") or unit.tu,
            "line": fn.get("line"),
            "static": fn.get("storageClass") == "static",
            "marks": sorted(ctx.marks), "frees": sorted(ctx.frees),
            "alloc0": sorted(ctx.alloc0), "alloc_ok": sorted(ctx.alloc_ok),
            "calls0": sorted(ctx.calls0), "calls_in": sorted(ctx.calls_in),
            "reports": ctx.reports,
            "off": fn.get("off"), "end": fn.get("end"),
        }
    return out
